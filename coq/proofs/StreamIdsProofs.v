From Coq Require Import Arith ZArith NArith PArith List Bool Lia ZifyBool ZifyNat ZifyN.
From RSV Require Import gen.GenConst lib.Iter model.StreamIds.
Import ListNotations.
Open Scope N_scope.
Ltac Zify.zify_post_hook ::= Z.to_euclidean_division_equations.

(* ---------- the generated constant has the shape the arithmetic relies on ---------- *)
Lemma max_stream_id_is_ones : MAX_STREAM_ID = N.ones 31.
Proof. reflexivity. Qed.
Lemma connection_stream_id_is_zero : CONNECTION_STREAM_ID = 0.
Proof. reflexivity. Qed.
Lemma first_ids : CLIENT_FIRST_STREAM_ID = 1 /\ SERVER_FIRST_STREAM_ID = 2.
Proof. split; reflexivity. Qed.

Lemma mem_true_iff x l : mem x l = true <-> In x l.
Proof.
  unfold mem. rewrite existsb_exists. split.
  - intros (y & Hy & E). apply N.eqb_eq in E. subst. exact Hy.
  - intro H. exists x. split; [exact H|apply N.eqb_refl].
Qed.

Section Width.
  Variable m : N.
  Hypothesis m_pos : 1 <= m.
  Let H := 2 ^ (m - 1).
  Let M := 2 ^ m.

  Lemma M_eq : M = 2 * H.
  Proof. unfold M, H. replace m with (N.succ (m - 1)) at 1 by lia. apply N.pow_succ_r'. Qed.
  Lemma H_pos : 0 < H.
  Proof. unfold H. apply N.neq_0_lt_0. apply N.pow_nonzero. discriminate. Qed.

  Lemma ones_eq : N.ones m = M - 1.
  Proof. unfold M. rewrite N.ones_equiv. lia. Qed.

  Lemma incr_mod c : incr (N.ones m) c = (c + 2) mod M.
  Proof. unfold incr, M. apply N.land_ones. Qed.

  Lemma iter_incr k : forall c, iter_nat (incr (N.ones m)) k c = (c + 2 * N.of_nat k) mod M \/ (k = 0%nat /\ iter_nat (incr (N.ones m)) k c = c).
  Proof.
    induction k as [|k IH]; intro c.
    - right. split; reflexivity.
    - left. cbn [iter_nat]. destruct (IH (incr (N.ones m) c)) as [E|[E1 E2]].
      + rewrite E, incr_mod. pose proof H_pos. pose proof M_eq.
        rewrite N.add_mod_idemp_l by lia. f_equal; try lia.
      + subst k. cbn [iter_nat]. rewrite incr_mod. f_equal; try lia.
  Qed.

  Lemma iter_incr_pos k c : (1 <= k)%nat ->
    iter_nat (incr (N.ones m)) k c = (c + 2 * N.of_nat k) mod M.
  Proof. intro Hk. destruct (iter_incr k c) as [E|[E _]]; [exact E|lia]. Qed.

  Lemma attempts_eq : Pos.to_nat (attempts (N.ones m)) = N.to_nat H.
  Proof.
    unfold attempts. rewrite ones_eq. pose proof M_eq. pose proof H_pos.
    assert ((M - 1) / 2 = H - 1) as -> by lia.
    rewrite <- (positive_N_nat (N.succ_pos (H - 1))). rewrite N.succ_pos_spec. f_equal. lia.
  Qed.

  Lemma mod_parity x : (x mod M) mod 2 = x mod 2.
  Proof. pose proof M_eq. pose proof H_pos. rewrite H0. clear H0. lia. Qed.

  (* every same-parity residue is reached within H steps *)
  Lemma reach_small c x : c < M -> x < M -> x mod 2 = c mod 2 ->
    exists k, 1 <= k <= H /\ (c + 2 * k) mod M = x.
  Proof.
    intros Hc Hx Hp. pose proof M_eq as HM. pose proof H_pos as HH.
    destruct (N.ltb_spec c x) as [Hlt|Hge].
    - exists ((x - c) / 2). split; [lia|].
      assert (c + 2 * ((x - c) / 2) = x) as -> by lia. apply N.mod_small. exact Hx.
    - exists ((x + M - c) / 2). split; [lia|].
      assert (c + 2 * ((x + M - c) / 2) = x + 1 * M) as -> by lia.
      rewrite N.mod_add by lia. apply N.mod_small. exact Hx.
  Qed.

  Lemma reach c x : x < M -> x mod 2 = c mod 2 ->
    exists k, 1 <= k <= H /\ (c + 2 * k) mod M = x.
  Proof.
    intros Hx Hp. pose proof M_eq as HM. pose proof H_pos as HH.
    destruct (reach_small (c mod M) x) as (k & Hk & E).
    - apply N.mod_lt; lia.
    - exact Hx.
    - rewrite mod_parity. exact Hp.
    - exists k. split; [exact Hk|]. rewrite <- E. rewrite N.add_mod_idemp_l by lia. reflexivity.
  Qed.

  Variable s : sc.
  Hypothesis Hmax : maxid s = N.ones m.

  (* the id examined at the k-th attempt *)
  Definition kth (k : N) : N := (cur s + 2 * k) mod M.

  Theorem allocate_some id s' : allocate s = (Some id, s') ->
    id <> 0 /\ id < M /\ id mod 2 = cur s mod 2 /\ mem id (active s) = false /\
    s' = {| cur := id; active := active s; maxid := maxid s |} /\
    exists k, 1 <= k <= H /\ id = kth k /\
      forall j, 1 <= j < k -> kth j = 0 \/ mem (kth j) (active s) = true.
  Proof.
    unfold allocate. rewrite Hmax.
    pose proof (find_pos_spec (incr (N.ones m)) (id_ok (active s)) (attempts (N.ones m)) (cur s)) as SP.
    destruct (find_pos _ _ _ _) as [c|c]; intro E; [|discriminate E].
    injection E as Ec Es. rewrite Ec in *. clear c Ec.
    unfold spec in SP. cbn [specn] in SP. destruct SP as (k & Hk & Hid & Hok & Hmin).
    rewrite attempts_eq in Hk. rewrite iter_incr_pos in Hid by lia.
    unfold id_ok in Hok. rewrite connection_stream_id_is_zero in Hok.
    pose proof M_eq as HM. pose proof H_pos as HH.
    assert (id < M) as HidM by (rewrite Hid; apply N.mod_lt; lia).
    apply negb_true_iff, orb_false_iff in Hok. destruct Hok as [Hz Hm].
    split; [lia|]. split; [exact HidM|]. split; [rewrite Hid, mod_parity; lia|].
    split; [exact Hm|]. split; [symmetry; exact Es|].
    exists (N.of_nat k). split; [lia|]. split; [exact Hid|].
    intros j Hj. specialize (Hmin (N.to_nat j)).
    rewrite iter_incr_pos in Hmin by lia. rewrite N2Nat.id in Hmin.
    assert (id_ok (active s) (kth j) = false) as Hf by (apply Hmin; lia).
    unfold id_ok in Hf. rewrite connection_stream_id_is_zero in Hf.
    apply negb_false_iff, orb_true_iff in Hf. destruct Hf as [Hf|Hf]; [left; lia|right; exact Hf].
  Qed.

  Theorem allocate_none_iff :
    fst (allocate s) = None <->
    (forall x, 0 < x < M -> x mod 2 = cur s mod 2 -> mem x (active s) = true).
  Proof.
    unfold allocate. rewrite Hmax.
    pose proof (find_pos_spec (incr (N.ones m)) (id_ok (active s)) (attempts (N.ones m)) (cur s)) as SP.
    pose proof M_eq as HM. pose proof H_pos as HH.
    destruct (find_pos _ _ _ _) as [c|c]; cbn [fst]; unfold spec in SP; cbn [specn] in SP.
    - split; [discriminate|]. intro Hall. exfalso.
      destruct SP as (k & Hk & Hid & Hok & _). rewrite iter_incr_pos in Hid by lia.
      unfold id_ok in Hok. rewrite connection_stream_id_is_zero in Hok.
      apply negb_true_iff, orb_false_iff in Hok. destruct Hok as [Hz Hm].
      assert (c < M) by (subst c; apply N.mod_lt; lia).
      rewrite Hall in Hm; [discriminate|lia|subst c; rewrite mod_parity; lia].
    - split; [|reflexivity]. intros _ x Hx Hp.
      destruct SP as (_ & Hnone). rewrite attempts_eq in Hnone.
      destruct (reach (cur s) x (proj2 Hx) Hp) as (k & Hk & Hkx).
      specialize (Hnone (N.to_nat k)). rewrite iter_incr_pos in Hnone by lia.
      rewrite N2Nat.id, Hkx in Hnone.
      assert (id_ok (active s) x = false) as Hf by (apply Hnone; lia).
      unfold id_ok in Hf. rewrite connection_stream_id_is_zero in Hf.
      apply negb_false_iff, orb_true_iff in Hf. destruct Hf as [Hf|Hf]; [lia|exact Hf].
  Qed.

  Lemma allocate_cur_bound : cur (snd (allocate s)) < M /\ cur (snd (allocate s)) mod 2 = cur s mod 2
                             /\ maxid (snd (allocate s)) = maxid s /\ active (snd (allocate s)) = active s.
  Proof.
    unfold allocate. rewrite Hmax.
    pose proof (find_pos_spec (incr (N.ones m)) (id_ok (active s)) (attempts (N.ones m)) (cur s)) as SP.
    pose proof M_eq as HM. pose proof H_pos as HH.
    destruct (find_pos _ _ _ _) as [c|c]; cbn [snd cur maxid active]; unfold spec in SP; cbn [specn] in SP.
    - destruct SP as (k & Hk & Hid & _). rewrite iter_incr_pos in Hid by lia. subst c.
      split; [apply N.mod_lt; lia|]. split; [rewrite mod_parity; lia|]. split; reflexivity.
    - destruct SP as (Hid & _). rewrite iter_incr_pos in Hid by lia. subst c.
      split; [apply N.mod_lt; lia|]. split; [rewrite mod_parity; lia|]. split; reflexivity.
  Qed.
End Width.

(* ---------- histories ---------- *)

(* ids returned by a run, each paired with the active set at the moment it was handed out *)
Fixpoint allocs (s : sc) (ops : list op) : list (N * list N) :=
  match ops with
  | [] => []
  | o :: r =>
    let (x, s') := step s o in
    match x with
    | RId id => (id, active s) :: allocs s' r
    | _ => allocs s' r
    end
  end.

Definition Inv (m par : N) (s : sc) : Prop :=
  maxid s = N.ones m /\ cur s mod 2 = par mod 2.

Lemma step_inv m par s o : 1 <= m -> Inv m par s -> Inv m par (snd (step s o)).
Proof.
  intros Hm (Hmax & Hp). unfold step.
  pose proof (allocate_cur_bound m Hm s Hmax) as (B1 & B2 & B3 & B4).
  destruct o as [| |id|id].
  - destruct (allocate s) as [[id|] s'] eqn:E; cbn [snd] in *; unfold Inv;
      (split; [rewrite ?B3; exact Hmax|rewrite B2; exact Hp]).
  - destruct (allocate s) as [[id|] s'] eqn:E; cbn [snd] in *.
    + unfold register. destruct (_ || _); unfold Inv; cbn [snd cur maxid];
        (split; [rewrite ?B3; exact Hmax|rewrite B2; exact Hp]).
    + unfold Inv; (split; [rewrite ?B3; exact Hmax|rewrite B2; exact Hp]).
  - unfold register. destruct (_ || _); unfold Inv; cbn [snd cur maxid]; auto.
  - unfold Inv; cbn [snd finish cur maxid]; auto.
Qed.

Theorem history_ids m par s ops : 1 <= m -> Inv m par s ->
  Forall (fun '(id, act) => id <> 0 /\ id < 2 ^ m /\ id mod 2 = par mod 2 /\ mem id act = false)
         (allocs s ops).
Proof.
  intros Hm. revert s. induction ops as [|o r IH]; intros s HI; cbn [allocs]; [constructor|].
  pose proof (step_inv m par s o Hm HI) as HI'.
  destruct (step s o) as [x s'] eqn:E. cbn [snd] in HI'.
  destruct x as [id| | |]; try (apply IH; exact HI').
  constructor; [|apply IH; exact HI'].
  destruct HI as (Hmax & Hp).
  unfold step in E. destruct o as [| |i|i].
  - destruct (allocate s) as [[id'|] s''] eqn:EA; inversion E; subst.
    destruct (allocate_some m Hm s Hmax id s' EA) as (A1 & A2 & A3 & A4 & _).
    repeat split; try assumption. congruence.
  - destruct (allocate s) as [[id'|] s''] eqn:EA; inversion E; subst.
    destruct (allocate_some m Hm s Hmax id s'' EA) as (A1 & A2 & A3 & A4 & _).
    repeat split; try assumption. congruence.
  - destruct (register s i) as [b s'']. destruct b; inversion E.
  - inversion E.
Qed.

Lemma init_inv m first mx : mx = N.ones m -> (first = 1 \/ first = 2) -> Inv m first (sc_init first mx).
Proof.
  intros Hmx Hf. unfold Inv, sc_init. cbn [maxid cur]. split; [exact Hmx|].
  destruct Hf; subst first; vm_compute; reflexivity.
Qed.

(* register / finish: the table never holds id 0 or an id above the maximum; finish frees an id;
   an already registered id stays registered (the handler is replaced, C13's last clause is the
   endpoint's assert_stream_id_available, see Endpoint). *)
Lemma register_spec s id :
  fst (register s id) = true <-> (id <> 0 /\ id <= maxid s).
Proof.
  unfold register. rewrite connection_stream_id_is_zero.
  destruct (id =? 0) eqn:E0; destruct (maxid s <? id) eqn:E1; cbn; split; intro; try discriminate; try lia; auto.
Qed.

Lemma finish_frees s id : mem id (active (finish s id)) = false.
Proof.
  cbn [finish active]. destruct (mem id (filter (fun x => negb (x =? id)) (active s))) eqn:E; [|reflexivity].
  apply mem_true_iff, filter_In in E. destruct E as [_ E]. rewrite N.eqb_refl in E. discriminate.
Qed.

Lemma finish_keeps s id x : x <> id -> mem x (active (finish s id)) = mem x (active s).
Proof.
  intro Hne. cbn [finish active]. destruct (mem x (active s)) eqn:E.
  - apply mem_true_iff. apply mem_true_iff in E. apply filter_In. split; [exact E|].
    destruct (x =? id) eqn:E2; [lia|reflexivity].
  - destruct (mem x (filter _ _)) eqn:E2; [|reflexivity].
    apply mem_true_iff, filter_In in E2. destruct E2 as [E2 _]. apply mem_true_iff in E2. congruence.
Qed.

(* non-vacuity: a wrapped, partly occupied reduced id space (the suite's m = 7 case) *)
Example wrap_example :
  fst (allocate {| cur := 125; active := [127; 1; 3]; maxid := N.ones 7 |}) = Some 5.
Proof. vm_compute. reflexivity. Qed.
Example full_example :
  fst (allocate {| cur := 3; active := [1; 3; 5; 7]; maxid := N.ones 3 |}) = None.
Proof. vm_compute. reflexivity. Qed.
Example real_width_example :
  fst (allocate {| cur := MAX_STREAM_ID; active := [1]; maxid := MAX_STREAM_ID |}) = Some 3.
Proof. vm_compute. reflexivity. Qed.

Theorem allocs_history :
  forall m first ops, 1 <= m -> first = 1 \/ first = 2 ->
    Forall (fun '(id, act) => id <> 0 /\ id < 2 ^ m /\ id mod 2 = first mod 2 /\ mem id act = false)
           (allocs (sc_init first (N.ones m)) ops).
Proof.
  intros m first ops Hm Hf. apply history_ids; [exact Hm|apply init_inv; [reflexivity|assumption]].
Qed.
