(* C01, no loss over whole histories: a request reaches the peer's handler exactly once (model/Network.v). *)
From Coq Require Import Arith NArith List Bool Lia Init.Byte.
From RSV Require Import gen.GenConst lib.Bytes model.Frame model.Fragmenter model.StreamIds model.Endpoint model.Network
     proofs.StreamIdsProofs proofs.EndpointProofs proofs.NetworkProofs.
Import ListNotations.
Open Scope N_scope.

(* ---------- the allocator of an endpoint only ever hands out ids of its own parity ---------- *)
Definition SInv (par : N) (e : ep) : Prop := StreamIdsProofs.Inv 31 par (sc e).

(* everything except allocation leaves the allocator's current id and maximum alone *)
Definition same_alloc (e e' : ep) : Prop := cur (sc e') = cur (sc e) /\ maxid (sc e') = maxid (sc e).

Lemma same_alloc_refl e : same_alloc e e.  Proof. split; reflexivity. Qed.
Lemma same_alloc_trans a b c : same_alloc a b -> same_alloc b c -> same_alloc a c.
Proof. intros [A B] [C D]. split; congruence. Qed.
Lemma same_alloc_finish e s : same_alloc e (finish e s).  Proof. split; reflexivity. Qed.
Lemma same_alloc_finish_table e s : same_alloc e (finish_table e s).  Proof. split; reflexivity. Qed.
Lemma same_alloc_set e i o : same_alloc e (set_obj e i o).  Proof. split; reflexivity. Qed.
Lemma same_alloc_register e s o : same_alloc e (register_obj e s o).
Proof. unfold same_alloc, register_obj, register. cbn [sc]. destruct (_ || _); split; reflexivity. Qed.
Lemma same_alloc_chan_mark e i o s r : same_alloc e (chan_mark e i o s r).
Proof. unfold chan_mark. destruct (_ && _); split; reflexivity. Qed.

Lemma same_alloc_sinv par e e' : same_alloc e e' -> SInv par e -> SInv par e'.
Proof. intros [A B] [C D]. split; congruence. Qed.

Ltac sa :=
  repeat first [ apply same_alloc_refl
               | eapply same_alloc_trans; [|apply same_alloc_finish]
               | eapply same_alloc_trans; [|apply same_alloc_finish_table]
               | eapply same_alloc_trans; [|apply same_alloc_chan_mark]
               | eapply same_alloc_trans; [|apply same_alloc_set]
               | eapply same_alloc_trans; [|apply same_alloc_register] ].

Lemma handler_frame_same_alloc e oid o f u : same_alloc e (fst (fst (handler_frame e oid o f u))).
Proof.
  unfold handler_frame.
  destruct (o_kind o); destruct f; cbn [fst]; try apply same_alloc_refl;
    repeat match goal with
           | |- context [match o_fut o with _ => _ end] => destruct (o_fut o)
           | |- context [if ?b then _ else _] => destruct b
           end; cbn [fst]; sa.
Qed.

Lemma open_responder_same_alloc e f o : same_alloc e (fst (open_responder e f o)).
Proof.
  unfold open_responder. destruct f; destruct o; cbn [fst]; try apply same_alloc_refl; try apply same_alloc_register.
  destruct has_sub, has_pub, complete; cbn [fst]; sa.
Qed.

Lemma recv_dispatch_same_alloc e f o u : same_alloc e (fst (recv_dispatch e f o u)).
Proof.
  unfold recv_dispatch.
  destruct ((fsid f =? CONNECTION_STREAM_ID) || is_request_type f).
  - destruct f; cbn [fst fsid];
      repeat (match goal with
              | |- context [tget (table e) ?k] => destruct (tget (table e) k)
              | |- context [default_outcome ?g o] => destruct (default_outcome g o)
              | |- context [?s =? CONNECTION_STREAM_ID] => destruct (s =? CONNECTION_STREAM_ID)
              | |- context [if ?b then _ else _] => destruct b
              end; cbn [fst]);
      first [apply same_alloc_refl | apply open_responder_same_alloc].
  - destruct (tget (table e) (fsid f)) as [j|]; [|apply same_alloc_refl].
    destruct (nth_error (objs e) j) as [ob|]; [|apply same_alloc_refl].
    pose proof (handler_frame_same_alloc e j ob f u) as H. destruct (handler_frame e j ob f u) as [[e' effs] raised]. exact H.
Qed.

Lemma close_one_same_alloc e sid oid : same_alloc e (fst (close_one e sid oid)).
Proof.
  unfold close_one. destruct (nth_error (objs e) oid) as [ob|]; [|apply same_alloc_finish_table].
  set (r1 := if is_requester (o_kind ob) then _ else _).
  assert (same_alloc e (fst r1)) as H1.
  { unfold r1. destruct (is_requester (o_kind ob)); [|apply same_alloc_refl].
    pose proof (handler_frame_same_alloc e oid ob (f_error sid EC_CONNECTION_ERROR []) true) as H.
    destruct (handler_frame e oid ob _ true) as [[e' effs] r]. exact H. }
  destruct r1 as [e1 eff1]. cbn [fst] in H1.
  destruct (match nth_error (objs e1) oid with Some x => x | None => ob end) as [kd sd ft rs st rc hp hs nn].
  cbn [o_kind o_fut o_has_pub].
  destruct kd; cbn [fst]; try (eapply same_alloc_trans; [exact H1|apply same_alloc_finish_table]).
  destruct ft; cbn [fst]; eapply same_alloc_trans; try exact H1; sa.
Qed.

Lemma close_all_same_alloc : forall entries e, same_alloc e (fst (close_all e entries)).
Proof.
  induction entries as [|[sid oid] r IH]; intro e; [apply same_alloc_refl|]. cbn [close_all].
  pose proof (close_one_same_alloc e sid oid) as H1. destruct (close_one e sid oid) as [e1 x1].
  pose proof (IH e1) as H2. destruct (close_all e1 r) as [e2 x2]. cbn [fst] in *. eapply same_alloc_trans; eassumption.
Qed.

(* an allocation: the id has the endpoint's parity, is not the connection stream, and the invariant is kept *)
Lemma alloc_parity par e : SInv par e ->
  SInv par (snd (alloc e)) /\ (forall k, fst (alloc e) = Some k -> k <> 0 /\ k mod 2 = par mod 2) /\
  table (snd (alloc e)) = table e.
Proof.
  intros [Hmax Hp]. unfold alloc.
  assert (1 <= 31) as Hm by lia.
  pose proof (allocate_cur_bound 31 Hm (sc e) Hmax) as (B1 & B2 & B3 & B4).
  destruct (allocate (sc e)) as [r s'] eqn:Ea. cbn [fst snd sc table] in *.
  unfold SInv, StreamIdsProofs.Inv. cbn [sc].
  split; [split; [congruence|congruence]|]. split; [|reflexivity].
  intros k Hk. subst r.
  destruct (allocate_some 31 Hm (sc e) Hmax k s' Ea) as (A1 & A2 & A3 & _). split; [exact A1|congruence].
Qed.

Lemma step_sinv par u e l : SInv par e -> SInv par (fst (ep_step u e l)).
Proof.
  intro S. destruct (alloc_parity par e S) as [Sa _].
  destruct l; cbn [ep_step];
    try (match goal with |- context [alloc e] => idtac end;
         destruct (alloc e) as [[sid|] e1]; cbn [fst snd] in *;
         solve [ exact Sa | eapply same_alloc_sinv; [|exact Sa]; sa ]);
    try (match goal with |- context [with_obj] => idtac end;
         unfold with_obj; destruct (nth_error (objs e) oid) as [ob|]; [|exact S];
         eapply same_alloc_sinv; [|exact S];
         repeat match goal with
                | |- context [match o_kind ?x with _ => _ end] => destruct (o_kind x)
                | |- context [match o_fut ?x with _ => _ end] => destruct (o_fut x)
                | |- context [match ?r with ARResult _ _ => _ | ARError => _ | ARCancel => _ end] => destruct r
                | |- context [if ?b then _ else _] => destruct b
                end; cbn [fst]; solve [sa]).
  - exact S.
  - (* LRecv: not used by the network, but true *)
    eapply same_alloc_sinv; [|exact S]. unfold recv_frame. destruct (stray_fragment e f); [apply same_alloc_refl|].
    destruct (is_fragmentable f); [|apply recv_dispatch_same_alloc].
    destruct (cache_append (cachek e) f) as [c' a]. destruct a; cbn [fst]; try (split; reflexivity).
    eapply same_alloc_trans; [|apply recv_dispatch_same_alloc]. split; reflexivity.
  - eapply same_alloc_sinv; [|exact S]. apply close_all_same_alloc.
Qed.

(* ---------- where table entries come from ---------- *)
(* a dispatched frame creates an entry only for its own stream, and only if it is a request *)
Lemma dispatch_new_key e f o u k : WF e -> tget (table e) k = None ->
  tget (table (fst (recv_dispatch e f o u))) k <> None -> is_request_type f = true /\ fsid f = k.
Proof.
  intros W Hn H. destruct (N.eq_dec k (fsid f)) as [E|Hne].
  - split; [|congruence]. destruct (is_request_type f) eqn:Er; [reflexivity|]. exfalso. apply H. clear H.
    unfold recv_dispatch. rewrite Er, orb_false_r.
    destruct (fsid f =? CONNECTION_STREAM_ID) eqn:E0.
    + destruct f; try discriminate Er; cbn [fst]; try exact Hn; try (destruct respond; exact Hn);
        try (destruct (default_outcome _ o); exact Hn).
    + rewrite <- E. rewrite Hn. exact Hn.
  - exfalso. pose proof (recv_dispatch_local e f o u k W Hne) as L.
    destruct (recv_dispatch e f o u) as [e' effs]. destruct L as [L _]. cbn [fst] in H. congruence.
Qed.

(* a section that is not a reception creates an entry only under an id its own allocator returns *)
Lemma local_new_key u e l k : is_recv l = false -> tget (table e) k = None ->
  tget (table (fst (ep_step u e l))) k <> None -> fst (alloc e) = Some k.
Proof.
  intros Hl Hn H.
  assert (forall e0 s, tget (table e0) k = None -> tget (table (finish e0 s)) k = None) as Hf.
  { intros e0 s H0. rewrite finish_table_get. destruct (s =? k); [reflexivity|exact H0]. }
  assert (forall e0 i o0 s r, tget (table e0) k = None -> tget (table (chan_mark e0 i o0 s r)) k = None) as Hc.
  { intros e0 i o0 s r H0. unfold chan_mark. destruct (_ && _); [apply Hf|]; exact H0. }
  destruct l; try discriminate Hl; cbn [ep_step] in H.
  1-3, 6: (unfold alloc in *; destruct (allocate (sc e)) as [[sid|] s']; cbn [fst snd table] in *; [|congruence]).
  - destruct (register_obj_spec {| sc := s'; table := table e; objs := objs e; cachek := cachek e |} sid (mk_obj KRRReq sid) k) as [A _].
    rewrite A in H. cbn [table] in H. destruct (N.eqb_spec sid k); [congruence|congruence].
  - destruct (register_obj_spec {| sc := s'; table := table e; objs := objs e; cachek := cachek e |} sid (mk_obj KRSReq sid) k) as [A _].
    rewrite A in H. cbn [table] in H. destruct (N.eqb_spec sid k); [congruence|congruence].
  - destruct (register_obj_spec {| sc := s'; table := table e; objs := objs e; cachek := cachek e |} sid
                (upd_sub (mk_obj KChanReq sid) has_pub false) k) as [A _].
    rewrite A in H. cbn [table] in H. destruct (N.eqb_spec sid k); [congruence|congruence].
  - exfalso. apply H. apply Hf. exact Hn.
  - exfalso. apply H. unfold with_obj. destruct (nth_error (objs e) oid); [|exact Hn]. destruct positive; cbn [fst]; [exact Hn|apply Hf; exact Hn].
  - exfalso. apply H. unfold with_obj. destruct (nth_error (objs e) oid) as [ob|]; [|exact Hn].
    destruct (o_kind ob); cbn [fst]; try exact Hn.
    destruct has_sub, (o_has_pub ob); cbn [fst]; repeat first [exact Hn | apply Hc].
  - exfalso. apply H. exact Hn.
  - exfalso. apply H. unfold with_obj. destruct (nth_error (objs e) oid); exact Hn.
  - exfalso. apply H. unfold with_obj. destruct (nth_error (objs e) oid) as [ob|]; [|exact Hn].
    destruct (o_kind ob); cbn [fst]; try exact Hn; first [apply Hf | apply Hc]; exact Hn.
  - exfalso. apply H. unfold with_obj. destruct (nth_error (objs e) oid) as [ob|]; [|exact Hn].
    destruct (o_fut ob); exact Hn.
  - exfalso. apply H. unfold with_obj. destruct (nth_error (objs e) oid) as [ob|]; [|exact Hn].
    destruct (o_kind ob), (o_fut ob); exact Hn.
  - exfalso. apply H. unfold with_obj. destruct (nth_error (objs e) oid) as [ob|]; [|exact Hn].
    destruct (o_kind ob); cbn [fst]; try exact Hn; destruct complete; cbn [fst]; first [exact Hn | apply Hf; exact Hn | apply Hc; exact Hn].
  - exfalso. apply H. unfold with_obj. destruct (nth_error (objs e) oid) as [ob|]; [|exact Hn].
    destruct (o_kind ob); cbn [fst]; try exact Hn; first [apply Hf | apply Hc]; exact Hn.
  - exfalso. apply H. unfold with_obj. destruct (nth_error (objs e) oid) as [ob|]; [|exact Hn].
    destruct (o_kind ob); cbn [fst]; try exact Hn; first [apply Hf | apply Hc]; exact Hn.
  - exfalso. apply H. unfold with_obj. destruct (nth_error (objs e) oid) as [ob|]; [|exact Hn].
    destruct (o_kind ob); cbn [fst]; try exact Hn.
    + destruct (o_fut ob); try exact Hn. destruct (o_responded ob); [exact Hn|apply Hf; exact Hn].
    + destruct r; apply Hf; exact Hn.
  - exfalso. apply H. destruct (tget (table (fst (close_all e (rev (table e))))) k) eqn:E; [|reflexivity].
    destruct (close_all_keys (rev (table e)) e k) as [A _]; [rewrite E; discriminate|]. congruence.
Qed.

(* ---------- over network histories ---------- *)
Definition par (s : side) : N := match s with SA => 1 | SB => 2 end.

(* request frames among a list of frames, on stream k *)
Definition reqk (k : N) (l : list frame) : list frame := filter is_request_type (on_stream k l).

Lemma reqk_app k a b : reqk k (a ++ b) = reqk k a ++ reqk k b.
Proof. unfold reqk. rewrite on_stream_app. apply filter_app. Qed.

Lemma reqk_In k l f : In f (reqk k l) <-> In f l /\ fsid f = k /\ is_request_type f = true.
Proof.
  unfold reqk, on_stream. rewrite !filter_In. rewrite N.eqb_eq. tauto.
Qed.

(* state and history so far: both endpoints well formed, allocators on their own parity, and every table entry under a
   foreign-parity id was created by a request frame dispatched here *)
Definition NK (n : net) (tr : list nevent) : Prop :=
  forall s, EndpointProofs.Inv (ep_of n s) /\ SInv (par s) (ep_of n s) /\
            forall k, tget (table (ep_of n s)) k <> None ->
                      k mod 2 = par s mod 2 \/ exists f, In f (delivered tr s) /\ is_request_type f = true /\ fsid f = k.

Lemma ep_of_update_self n s e q sent : ep_of (update n s e q sent) s = e.
Proof. destruct s; reflexivity. Qed.
Lemma ep_of_update_other n s e q sent : ep_of (update n s e q sent) (other s) = ep_of n (other s).
Proof. destruct s; reflexivity. Qed.

Lemma delivered_In_app tr x s f : In f (delivered tr s) -> In f (delivered (tr ++ x) s).
Proof. rewrite delivered_app. intro H. apply in_or_app. left. exact H. Qed.

Lemma NK_init : NK net_init [].
Proof.
  intro s. split; [destruct s; apply inv_init|]. split.
  - destruct s; apply init_inv; auto.
  - intros k H. destruct s; cbn in H; congruence.
Qed.

Lemma NK_step n tr l n' x : NK n tr -> net_step n l = (n', x) -> NK n' (tr ++ x).
Proof.
  intros K H. destruct l as [s0 l|s0 k0 o u]; cbn [net_step] in H.
  - destruct (is_recv l) eqn:Hl; [injection H as <- <-; rewrite app_nil_r; exact K|].
    destruct (ep_step true (ep_of n s0) l) as [e' effs] eqn:Es. injection H as <- <-.
    intro s. destruct (side_cases s s0) as [-> | ->].
    + rewrite ep_of_update_self. destruct (K s0) as (I & S & T).
      assert (e' = fst (ep_step true (ep_of n s0) l)) as He by (rewrite Es; reflexivity).
      split; [rewrite He; apply inv_step; exact I|]. split; [rewrite He; apply step_sinv; exact S|].
      intros k Hk. destruct (tget (table (ep_of n s0)) k) eqn:Eo.
      * destruct (T k) as [A|[f [A B]]]; [congruence|left; exact A|right; exists f; split; [apply delivered_In_app; exact A|exact B]].
      * left. rewrite He in Hk. pose proof (local_new_key true (ep_of n s0) l k Hl Eo Hk) as Ha.
        destruct (alloc_parity (par s0) (ep_of n s0) S) as (_ & P & _). destruct (P k Ha) as [_ Q]. exact Q.
    + rewrite ep_of_update_other. destruct (K (other s0)) as (I & S & T). split; [exact I|]. split; [exact S|].
      intros k Hk. destruct (T k Hk) as [A|[f [A B]]]; [left; exact A|right; exists f; split; [apply delivered_In_app; exact A|exact B]].
  - destruct (pop (inbox n s0) k0) as [[f rest]|] eqn:Hp; [|injection H as <- <-; rewrite app_nil_r; exact K].
    destruct (recv_dispatch (ep_of n s0) f o u) as [e' effs] eqn:Es. injection H as <- <-.
    intro s. destruct (side_cases s s0) as [-> | ->].
    + rewrite ep_of_update_self. destruct (K s0) as (I & S & T).
      assert (e' = fst (recv_dispatch (ep_of n s0) f o u)) as He by (rewrite Es; reflexivity).
      split; [rewrite He; apply inv_recv_dispatch; exact I|].
      split; [rewrite He; eapply same_alloc_sinv; [apply recv_dispatch_same_alloc|exact S]|].
      intros k Hk. destruct (tget (table (ep_of n s0)) k) eqn:Eo.
      * destruct (T k) as [A|[g [A B]]]; [congruence|left; exact A|right; exists g; split; [apply delivered_In_app; exact A|exact B]].
      * right. rewrite He in Hk. destruct (dispatch_new_key (ep_of n s0) f o u k (inv_WF _ I) Eo Hk) as [Q1 Q2].
        exists f. split; [|split; assumption]. rewrite delivered_app. apply in_or_app. right. cbn [delivered].
        rewrite side_eqb_refl. left. reflexivity.
    + rewrite ep_of_update_other. destruct (K (other s0)) as (I & S & T). split; [exact I|]. split; [exact S|].
      intros k Hk. destruct (T k Hk) as [A|[g [A B]]]; [left; exact A|right; exists g; split; [apply delivered_In_app; exact A|exact B]].
Qed.

(* payloads handed to the application at s by REQUEST frames of stream k *)
Fixpoint got_req (tr : list nevent) (s : side) (k : N) : list (bytes * bytes) :=
  match tr with
  | [] => []
  | EvDeliver s' f effs :: r =>
      (if side_eqb s' s && (fsid f =? k) && is_request_type f then app_payloads effs else []) ++ got_req r s k
  | _ :: r => got_req r s k
  end.

Lemma got_req_app a b s k : got_req (a ++ b) s k = got_req a s k ++ got_req b s k.
Proof. induction a as [|x a IH]; [reflexivity|]. destruct x; cbn [got_req app]; rewrite IH, ?app_assoc; reflexivity. Qed.

(* while at most one request frame of stream k is ever dispatched at s, each one hands the handler its payload *)
Lemma run_requests : forall ls n tr0 n' tr s k, NK n tr0 -> net_run n ls = (n', tr) ->
  k <> 0 -> k mod 2 <> par s mod 2 ->
  (length (reqk k (delivered (tr0 ++ tr) s)) <= 1)%nat ->
  got_req tr s k = pmap carried (reqk k (delivered tr s)).
Proof.
  induction ls as [|l ls IH]; intros n tr0 n' tr s k K H Hk Hp Hone; cbn [net_run] in H.
  - injection H as <- <-. reflexivity.
  - destruct (net_step n l) as [n1 x] eqn:Hs. destruct (net_run n1 ls) as [n2 xs] eqn:Hr. injection H as <- <-.
    pose proof (NK_step n tr0 l n1 x K Hs) as K1.
    rewrite got_req_app, delivered_app, reqk_app, pmap_app.
    rewrite (IH n1 (tr0 ++ x) n2 xs s k K1 Hr Hk Hp) by (rewrite <- app_assoc; exact Hone).
    f_equal.
    destruct l as [s0 l|s0 k0 o u]; cbn [net_step] in Hs.
    + destruct (is_recv l); [injection Hs as <- <-; reflexivity|].
      destruct (ep_step true (ep_of n s0) l) as [e' effs]. injection Hs as <- <-. reflexivity.
    + destruct (pop (inbox n s0) k0) as [[f rest]|] eqn:Hpop; [|injection Hs as <- <-; reflexivity].
      destruct (recv_dispatch (ep_of n s0) f o u) as [e' effs] eqn:Es. injection Hs as <- <-.
      cbn [got_req delivered]. rewrite !app_nil_r.
      destruct (side_eqb s0 s) eqn:Ess; cbn [andb]; [|reflexivity].
      apply side_eqb_eq in Ess. subst s0.
      unfold reqk, on_stream. cbn [filter]. destruct (fsid f =? k) eqn:Ef; cbn [andb filter]; [|reflexivity].
      destruct (is_request_type f) eqn:Er; cbn [pmap]; [|reflexivity].
      apply N.eqb_eq in Ef.
      (* the table is free: an entry would have our parity or come from an earlier request frame on k *)
      assert (tget (table (ep_of n s)) (fsid f) = None) as Hfree.
      { destruct (tget (table (ep_of n s)) (fsid f)) eqn:Et; [|reflexivity]. exfalso.
        destruct (K s) as (_ & _ & T). destruct (T (fsid f)) as [A|[g (A & B & C)]]; [congruence|congruence|].
        assert (In g (reqk k (delivered tr0 s))) as Hin by (apply reqk_In; repeat split; [exact A|congruence|exact B]).
        rewrite !delivered_app, !reqk_app, !app_length in Hone. cbn [delivered] in Hone.
        rewrite side_eqb_refl in Hone. cbn [app] in Hone. unfold reqk at 2 in Hone. unfold on_stream in Hone. cbn [filter] in Hone.
        rewrite (proj2 (N.eqb_eq _ _) Ef) in Hone. cbn [filter] in Hone. rewrite Er in Hone. cbn [length] in Hone.
        destruct (reqk k (delivered tr0 s)); [destruct Hin|cbn [length] in Hone; lia]. }
      assert (fsid f <> 0) as Hnz by congruence.
      destruct (request_delivered (ep_of n s) f o u Er Hnz Hfree) as [p [Hc Ha]].
      rewrite Es in Ha. cbn [snd] in Ha. rewrite Ha, Hc. reflexivity.
Qed.

(* EXACTLY ONCE.  For every history of the two endpoints, side s and stream k of the peer's parity: if the peer queued
   exactly one request frame f on stream k and it has been dispatched, the application's handler at s was handed the
   request payload exactly once — from request frames of stream k it received [carried f] and nothing else — whatever else
   happened on this or any other stream, and whether or not the handler raised. *)
Theorem network_request_exactly_once ls s k f :
  let tr := snd (net_run net_init ls) in
  k <> 0 -> k mod 2 <> par s mod 2 ->
  reqk k (nwire tr (other s)) = [f] -> In f (delivered tr s) ->
  exists p, carried f = Some p /\ got_req tr s k = [p].
Proof.
  cbn zeta. intros Hk Hp Hw Hd.
  pose proof (network_in_flight ls s k) as L. cbn zeta in L.
  destruct (net_run net_init ls) as [n' tr] eqn:H. cbn [fst snd] in *.
  assert (reqk k (nwire tr (other s)) = reqk k (delivered tr s) ++ reqk k (inbox n' s)) as L2.
  { unfold reqk. rewrite L. apply filter_app. }
  assert (In f (reqk k (delivered tr s))) as Hin.
  { apply reqk_In. assert (In f (reqk k (nwire tr (other s)))) as Hf by (rewrite Hw; left; reflexivity).
    apply reqk_In in Hf. destruct Hf as (_ & A & B). repeat split; assumption. }
  assert (reqk k (delivered tr s) = [f]) as Hdel.
  { rewrite Hw in L2. destruct (reqk k (delivered tr s)) as [|a [|b r]]; [destruct Hin| |].
    - cbn [app] in L2. injection L2 as <- _. reflexivity.
    - cbn [app] in L2. discriminate L2. }
  pose proof (run_requests ls net_init [] n' tr s k NK_init H Hk Hp) as R. cbn [app] in R.
  rewrite Hdel in R. specialize (R (le_n 1)). cbn [pmap] in R.
  destruct (carried f) as [p|] eqn:Hc.
  - exists p. split; [reflexivity|exact R].
  - exfalso. apply reqk_In in Hin. destruct Hin as (_ & _ & Hr). destruct f; discriminate.
Qed.

(* non-vacuity: the history of network_example meets the premises for the request A sent on stream 1 *)
Lemma request_example :
  let ls := [NLocal SA (LReqResponse [x01] [x02]); NLocal SB (LReqStream [x03] [x04]);
             NLocal SB (LSubscribe 0%nat true [x03] [x04]);
             NDeliver SB 1 OFuture true; NDeliver SA 2 OPublisher true;
             NLocal SA (LPubNext 1%nat [x05] [x06] false); NLocal SB (LAppResolve 1%nat (ARResult [x07] [x08]));
             NLocal SB (LFutCb 1%nat (ARResult [x07] [x08])); NLocal SA (LPubNext 1%nat [] [x09] true);
             NDeliver SB 2 ONone true; NDeliver SA 1 ONone true; NDeliver SB 2 ONone true] in
  let tr := snd (net_run net_init ls) in
  let f := FRequestResponse 1 false false [x01] [x02] in
  1 <> 0 /\ 1 mod 2 <> par SB mod 2 /\ reqk 1 (nwire tr (other SB)) = [f] /\ In f (delivered tr SB) /\
  got_req tr SB 1 = [([x01], [x02])].
Proof. vm_compute. repeat split; try discriminate. left. reflexivity. Qed.
