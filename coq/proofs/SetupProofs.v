From Coq Require Import ZArith NArith List Bool Lia ZifyBool ZifyN Init.Byte.
From RSV Require Import gen.GenConst lib.Bytes model.Frame model.Setup proofs.FrameProofs.
Import ListNotations.
Open Scope N_scope.
Ltac Zify.zify_post_hook ::= Z.to_euclidean_division_equations.

Lemma gen_setup_constants :
  PROTOCOL_MAJOR_VERSION = 1 /\ PROTOCOL_MINOR_VERSION = 0 /\
  EC_UNSUPPORTED_SETUP = 2 /\ EC_REJECTED_SETUP = 3 /\ EC_REJECTED_RESUME = 4 /\ EC_INVALID_SETUP = 1.
Proof. repeat split; reflexivity. Qed.

(* ---------- milliseconds ---------- *)
Lemma to_ms_whole k : (0 <= k)%Z -> to_ms (1000 * k) = Z.to_N k.
Proof. intro H. unfold to_ms. f_equal. lia. Qed.

Lemma to_ms_close us : (0 <= us)%Z -> (Z.abs (1000 * Z.of_N (to_ms us) - us) <= 500)%Z.
Proof. intro H. unfold to_ms. rewrite Z2N.id by lia. lia. Qed.

(* ---------- SETUP states the configuration ---------- *)
Lemma setup_frame_wf c : wf_cfg c = true -> wf (setup_frame c) = true.
Proof.
  unfold wf_cfg, setup_frame. intro W.
  repeat match goal with H : (_ && _) = true |- _ => apply andb_true_iff in H; destruct H end.
  destruct gen_setup_constants as (-> & -> & _).
  destruct (setup_payload c) as [[md d]|]; unfold wf; cbn [fsid fmd];
    repeat (apply andb_true_iff; split); try reflexivity; try assumption;
    try (apply N.ltb_lt; unfold to_ms; lia).
Qed.

Theorem setup_on_wire bk c : wf_cfg c = true -> decode bk (encode (setup_frame c)) = DOk (setup_frame c).
Proof.
  intro W. rewrite decode_encode by (apply setup_frame_wf; exact W).
  unfold setup_frame. destruct (setup_payload c) as [[md d]|]; reflexivity.
Qed.

(* ---------- SETUP is first, once ---------- *)
Definition no_setup (l : list tag) : Prop := ~ In TSetup l.

Definition Inv (s : conn) : Prop :=
  (ready s = false /\ wire s = [] /\ no_setup (queue s)) \/
  (ready s = true /\ ((wire s = [] /\ exists q, queue s = TSetup :: q /\ no_setup q) \/
                      (exists w, wire s = TSetup :: w /\ no_setup w /\ no_setup (queue s)))).

Lemma no_setup_app a b : no_setup a -> no_setup b -> no_setup (a ++ b).
Proof. unfold no_setup. intros Ha Hb Hin. apply in_app_or in Hin. tauto. Qed.

Lemma inv_step s l : Inv s -> Inv (cstep s l).
Proof.
  intros [(Hr & Hw & Hq) | (Hr & [(Hw & q & Eq & Hq) | (w & Ew & Hw & Hq)])]; destruct l; unfold cstep; rewrite ?Hr; cbn [ready queue wire].
  - left. repeat split; try assumption. apply no_setup_app; [exact Hq|]. intros [H|[]]. discriminate.
  - left. auto.
  - right. split; [reflexivity|]. left. split; [exact Hw|]. exists (queue s). split; [reflexivity|exact Hq].
  - left. auto.
  - right. split; [reflexivity|]. left. split; [exact Hw|]. exists (q ++ [TOther n]). split; [rewrite Eq; reflexivity|].
    apply no_setup_app; [exact Hq|]. intros [H|[]]. discriminate.
  - right. split; [exact Hr|]. left. split; [exact Hw|]. exists q. split; assumption.
  - right. split; [exact Hr|]. left. split; [exact Hw|]. exists q. split; assumption.
  - rewrite Eq. cbn [ready queue wire]. right. split; [reflexivity|]. right. exists []. rewrite Hw. split; [reflexivity|].
    split; [intros []|exact Hq].
  - right. split; [reflexivity|]. right. exists w. split; [exact Ew|]. split; [exact Hw|].
    apply no_setup_app; [exact Hq|]. intros [H|[]]. discriminate.
  - right. split; [exact Hr|]. right. exists w. repeat split; assumption.
  - right. split; [exact Hr|]. right. exists w. repeat split; assumption.
  - destruct (queue s) as [|x r] eqn:Eq.
    + right. split; [exact Hr|]. right. exists w. rewrite Eq. repeat split; assumption.
    + cbn [ready queue wire]. right. split; [reflexivity|]. right. exists (w ++ [x]). rewrite Ew. split; [reflexivity|].
      split.
      * apply no_setup_app; [exact Hw|]. intros [H|[]]. subst x. apply Hq. left. reflexivity.
      * intro Hin. apply Hq. right. exact Hin.
Qed.

Lemma inv_run : forall ls s, Inv s -> Inv (fold_left cstep ls s).
Proof. induction ls as [|l r IH]; intros s H; [exact H|]. cbn [fold_left]. apply IH. apply inv_step. exact H. Qed.

Theorem setup_first ls :
  let s := crun ls in
  (wire s = [] \/ exists w, wire s = TSetup :: w /\ ~ In TSetup w) /\
  (ready s = false -> wire s = []).
Proof.
  cbv zeta. assert (Inv (crun ls)) as H.
  { apply inv_run. left. repeat split; try reflexivity. intros []. }
  destruct H as [(Hr & Hw & _) | (Hr & [(Hw & _) | (w & Ew & Hw & _)])].
  - split; [left; exact Hw|intros _; exact Hw].
  - split; [left; exact Hw|intros _; exact Hw].
  - split; [right; exists w; split; assumption|]. intro X. congruence.
Qed.

(* the defect repaired by the fix: publishing the transport before SETUP is queued lets another frame go first *)
Lemma early_publish_refuted :
  exists ls, wire (fold_left estep ls conn_init) = [TOther 7].
Proof. exists [E (LApp 7); EPublishEarly; E LSend]. reflexivity. Qed.

(* ---------- server decision ---------- *)
Theorem server_accept_iff f pub raises denc mdenc md d sl :
  server_decision f pub raises = SAccept denc mdenc md d sl <->
  exists ign lease major minor ka ml,
    f = FSetup 0 ign lease major minor ka ml None mdenc denc md d /\
    (lease = true -> pub = true) /\ raises = false /\ sl = lease.
Proof.
  split.
  - destruct f; cbn [server_decision]; try discriminate.
    + change CONNECTION_STREAM_ID with 0. destruct (N.eqb_spec sid 0) as [->|]; cbn [negb]; [|discriminate].
      destruct resume; [discriminate|]. destruct lease, pub, raises; cbn; try discriminate;
        intro E; injection E as <- <- <- <- <-; repeat eexists; congruence.
    + destruct (negb _); discriminate.
  - intros (ign & lease & major & minor & ka & ml & -> & Hl & -> & ->). cbn [server_decision].
    change CONNECTION_STREAM_ID with 0. cbn [N.eqb negb].
    destruct lease; [rewrite (Hl eq_refl)|]; reflexivity.
Qed.

Theorem server_errors f pub raises sid code :
  server_decision f pub raises = SError sid code ->
  sid = 0 /\
  ((exists ign lease major minor ka ml tok mdenc denc md d,
      f = FSetup 0 ign lease major minor ka ml (Some tok) mdenc denc md d /\ code = EC_UNSUPPORTED_SETUP) \/
   (exists ign major minor ka ml mdenc denc md d,
      f = FSetup 0 ign true major minor ka ml None mdenc denc md d /\ pub = false /\ code = EC_UNSUPPORTED_SETUP) \/
   (exists ign lease major minor ka ml mdenc denc md d,
      f = FSetup 0 ign lease major minor ka ml None mdenc denc md d /\ (lease = true -> pub = true) /\
      raises = true /\ code = EC_REJECTED_SETUP) \/
   (exists ign major minor tok ls fc, f = FResume 0 ign major minor tok ls fc /\ code = EC_REJECTED_RESUME)).
Proof.
  destruct f; cbn [server_decision]; try discriminate; change CONNECTION_STREAM_ID with 0.
  - destruct (N.eqb_spec sid0 0) as [->|]; cbn [negb]; [|discriminate].
    destruct resume as [tok|].
    + intro E. injection E as <- <-. split; [reflexivity|]. left. repeat eexists.
    + destruct lease, pub, raises; cbn; try discriminate; intro E; injection E as <- <-; (split; [reflexivity|]).
      * right. right. left. repeat eexists; congruence.
      * right. left. repeat eexists.
      * right. left. repeat eexists.
      * right. right. left. repeat eexists; congruence.
      * right. right. left. repeat eexists; congruence.
  - destruct (N.eqb_spec sid0 0) as [->|]; cbn [negb]; [|discriminate].
    intro E. injection E as <- <-. split; [reflexivity|]. right. right. right. repeat eexists.
Qed.

Example cfg_example :
  wf_cfg {| ka_us := 500000; ml_us := 600000000; honor_lease := false; md_enc := [x61]; d_enc := [x62]; setup_payload := None |} = true.
Proof. reflexivity. Qed.
