(* Lemmas and proofs for C19 (model/Routing.v). *)
From Coq Require Import NArith List Bool Init.Byte Lia.
From RSV Require Import gen.GenConst lib.Bytes model.Routing.
Import ListNotations.
Open Scope N_scope.

(* ------------------------------------------------------------------------------------------------ *)
(* The tables read off the source are aligned *)

Lemma tables_aligned : forall m,
  assocN (meth_frame_type m) route_map_by_frame_type = Some (deco_slot (deco_of_meth m)) /\
  assocN (meth_frame_type m) unknown_route_chain = Some (deco_unknown (deco_of_meth m)).
Proof. destruct m; split; reflexivity. Qed.

Lemma deco_slot_inj : forall d d', deco_slot d = deco_slot d' -> d = d'.
Proof. destruct d, d'; cbn; intro H; try reflexivity; discriminate H. Qed.

Lemma deco_unknown_inj : forall d d', deco_unknown d = deco_unknown d' -> d = d'.
Proof. destruct d, d'; cbn; intro H; try reflexivity; discriminate H. Qed.

Lemma deco_of_meth_inj : forall m m', deco_of_meth m = deco_of_meth m' -> m = m'.
Proof. destruct m, m'; cbn; intro H; try reflexivity; discriminate H. Qed.

Lemma tables_full : forall m,
  assocN (meth_frame_type m) route_map_by_frame_type = Some (deco_slot (deco_of_meth m)) /\
  assocN (meth_frame_type m) unknown_route_chain = Some (deco_unknown (deco_of_meth m)) /\
  (forall d d', deco_slot d = deco_slot d' -> d = d') /\
  (forall d d', deco_unknown d = deco_unknown d' -> d = d') /\
  (forall m', deco_of_meth m = deco_of_meth m' -> m = m').
Proof.
  intro m. destruct (tables_aligned m) as [A B].
  repeat split; auto using deco_slot_inj, deco_unknown_inj, deco_of_meth_inj.
Qed.

Lemma error_kinds :
  meth_error MResponse = EFuture /\ meth_error MStream = EStream /\ meth_error MChannel = EChannelStream /\
  meth_error MFnf = ESwallowed /\ meth_error MPush = ESwallowed.
Proof. repeat split. Qed.

Lemma deco_eqb_eq : forall a b, deco_eqb a b = true <-> a = b.
Proof. destruct a, b; cbn; split; intro H; try reflexivity; discriminate H. Qed.

Lemma deco_eqb_refl : forall a, deco_eqb a a = true.
Proof. intro a. apply deco_eqb_eq. reflexivity. Qed.

Lemma deco_eqb_neq : forall a b, a <> b -> deco_eqb a b = false.
Proof. intros a b H. destruct (deco_eqb a b) eqn:E; [apply deco_eqb_eq in E; contradiction|reflexivity]. Qed.

Lemma bytes_eqb_refl : forall a, bytes_eqb a a = true.
Proof. intro a. apply bytes_eqb_eq. reflexivity. Qed.

(* ------------------------------------------------------------------------------------------------ *)
(* get/set *)

Lemma get_set_slot_same : forall s r tb, get_slot s (set_slot s r tb) = r.
Proof. destruct s; reflexivity. Qed.

Lemma get_set_slot_other : forall s s' r tb, s <> s' -> get_slot s (set_slot s' r tb) = get_slot s tb.
Proof. destruct s, s'; intros; try reflexivity; contradiction. Qed.

Lemma get_unknown_set_slot : forall u s r tb, get_unknown u (set_slot s r tb) = get_unknown u tb.
Proof. destruct u, s; reflexivity. Qed.

Lemma get_set_unknown_same : forall u h tb, get_unknown u (set_unknown u h tb) = h.
Proof. destruct u; reflexivity. Qed.

Lemma get_set_unknown_other : forall u u' h tb, u <> u' -> get_unknown u (set_unknown u' h tb) = get_unknown u tb.
Proof. destruct u, u'; intros; try reflexivity; contradiction. Qed.

Lemma get_slot_set_unknown : forall s u h tb, get_slot s (set_unknown u h tb) = get_slot s tb.
Proof. destruct s, u; reflexivity. Qed.

(* ------------------------------------------------------------------------------------------------ *)
(* Registration *)

Lemma lookup_route_app : forall n a b,
  lookup_route n (a ++ b) = match lookup_route n a with Some h => Some h | None => lookup_route n b end.
Proof.
  induction a as [|[k h] a IH]; intro b; cbn [lookup_route app]; [reflexivity|].
  destruct (bytes_eqb n k); [reflexivity|apply IH].
Qed.

Definition or_else {A} (a b : option A) : option A := match a with Some x => Some x | None => b end.

Lemma build_from_lookup : forall rs tb d n,
  lookup_route n (get_slot (deco_slot d) (build_from tb rs)) =
  or_else (lookup_route n (get_slot (deco_slot d) tb)) (first_registered rs d n).
Proof.
  induction rs as [|r rest IH]; intros tb d n; cbn [build_from first_registered].
  - unfold or_else. destruct (lookup_route n (get_slot (deco_slot d) tb)); reflexivity.
  - destruct r as [d' [n'|] h | d' h]; cbn [register].
    + destruct (lenN n' =? 0) eqn:Elen; cbn [negb].
      * rewrite andb_false_r. apply IH.
      * rewrite andb_true_r.
        destruct (lookup_route n' (get_slot (deco_slot d') tb)) as [h0|] eqn:Elk.
        -- rewrite IH. destruct (deco_eqb d d' && bytes_eqb n n') eqn:Em; [|reflexivity].
           apply andb_true_iff in Em. destruct Em as [Ed En].
           apply deco_eqb_eq in Ed. apply bytes_eqb_eq in En. subst d' n'.
           rewrite Elk. reflexivity.
        -- rewrite IH.
           destruct (deco_eqb d d') eqn:Ed; cbn [andb].
           ++ apply deco_eqb_eq in Ed. subst d'. rewrite get_set_slot_same, lookup_route_app.
              cbn [lookup_route].
              destruct (lookup_route n (get_slot (deco_slot d) tb)) as [h1|] eqn:E1; cbn [or_else]; [reflexivity|].
              destruct (bytes_eqb n n'); reflexivity.
           ++ rewrite get_set_slot_other; [reflexivity|].
              intro Hs. apply deco_slot_inj in Hs. subst d'. rewrite deco_eqb_refl in Ed. discriminate Ed.
    + apply IH.
    + rewrite IH. rewrite get_slot_set_unknown. reflexivity.
Qed.

Lemma build_lookup : forall rs d n,
  lookup_route n (get_slot (deco_slot d) (build rs)) = first_registered rs d n.
Proof.
  intros rs d n. unfold build. rewrite build_from_lookup.
  destruct d; reflexivity.
Qed.

Lemma build_from_unknown : forall rs tb d,
  get_unknown (deco_unknown d) (build_from tb rs) = or_else (last_unknown rs d) (get_unknown (deco_unknown d) tb).
Proof.
  induction rs as [|r rest IH]; intros tb d; cbn [build_from last_unknown]; [reflexivity|].
  destruct r as [d' [n'|] h | d' h]; cbn [register].
  - destruct (lenN n' =? 0); [apply IH|].
    destruct (lookup_route n' (get_slot (deco_slot d') tb)); [apply IH|].
    rewrite IH, get_unknown_set_slot. reflexivity.
  - apply IH.
  - rewrite IH. destruct (last_unknown rest d) as [h'|]; cbn [or_else]; [reflexivity|].
    destruct (deco_eqb d d') eqn:Ed.
    + apply deco_eqb_eq in Ed. subst d'. rewrite get_set_unknown_same. reflexivity.
    + rewrite get_set_unknown_other; [reflexivity|].
      intro Hu. apply deco_unknown_inj in Hu. subst d'. rewrite deco_eqb_refl in Ed. discriminate Ed.
Qed.

Lemma build_unknown : forall rs d, get_unknown (deco_unknown d) (build rs) = last_unknown rs d.
Proof.
  intros rs d. unfold build. rewrite build_from_unknown.
  destruct (last_unknown rs d); [reflexivity|]. destruct d; reflexivity.
Qed.

Lemma registration : forall rs d n,
  lookup_route n (get_slot (deco_slot d) (build rs)) = first_registered rs d n /\
  get_unknown (deco_unknown d) (build rs) = last_unknown rs d.
Proof. intros. split; [apply build_lookup|apply build_unknown]. Qed.

Lemma first_registered_In : forall rs d n h,
  first_registered rs d n = Some h -> In (Reg d (Some n) h) rs /\ n <> [].
Proof.
  induction rs as [|r rest IH]; intros d n h Hf; cbn [first_registered] in Hf; [discriminate Hf|].
  destruct r as [d' [n'|] h' | d' h'].
  - destruct (deco_eqb d d' && bytes_eqb n n' && negb (lenN n' =? 0)) eqn:E.
    + injection Hf as <-. apply andb_true_iff in E. destruct E as [E E3]. apply andb_true_iff in E.
      destruct E as [E1 E2]. apply deco_eqb_eq in E1. apply bytes_eqb_eq in E2. subst d' n'.
      split; [left; reflexivity|]. intro Hn. subst n. cbn in E3. discriminate E3.
    + destruct (IH _ _ _ Hf) as [A B]. split; [right; exact A|exact B].
  - destruct (IH _ _ _ Hf) as [A B]. split; [right; exact A|exact B].
  - destruct (IH _ _ _ Hf) as [A B]. split; [right; exact A|exact B].
Qed.

Lemma last_unknown_In : forall rs d h, last_unknown rs d = Some h -> In (RegUnknown d h) rs.
Proof.
  induction rs as [|r rest IH]; intros d h Hl; cbn [last_unknown] in Hl; [discriminate Hl|].
  destruct r as [d' n' h' | d' h'].
  - right. apply IH. exact Hl.
  - destruct (last_unknown rest d) as [h0|] eqn:E.
    + injection Hl as <-. right. apply IH. exact E.
    + destruct (deco_eqb d d') eqn:Ed; [|discriminate Hl]. injection Hl as <-.
      apply deco_eqb_eq in Ed. subst d'. left. reflexivity.
Qed.

(* no route of a program registered for another name / decorator is ever the answer *)
Lemma first_registered_none : forall rs d n,
  (forall h, ~ In (Reg d (Some n) h) rs) -> first_registered rs d n = None.
Proof.
  intros rs d n Hn. destruct (first_registered rs d n) as [h|] eqn:E; [|reflexivity].
  apply first_registered_In in E. destruct E as [E _]. exfalso. exact (Hn h E).
Qed.

Lemma last_unknown_none : forall rs d, (forall h, ~ In (RegUnknown d h) rs) -> last_unknown rs d = None.
Proof.
  intros rs d Hn. destruct (last_unknown rs d) as [h|] eqn:E; [|reflexivity].
  apply last_unknown_In in E. exfalso. exact (Hn h E).
Qed.

(* ------------------------------------------------------------------------------------------------ *)
(* Arguments *)

Definition des_fine (des_ok : N -> bool) (p : param) : bool :=
  match needs_deserializer p with Some c => des_ok c | None => true end.

Lemma collect_spec : forall des_ok ps,
  collect_route_arguments des_ok ps =
  if forallb (des_fine des_ok) ps then Some (map arg_of ps) else None.
Proof.
  induction ps as [|p r IH]; cbn [collect_route_arguments forallb map]; [reflexivity|].
  unfold des_fine at 1, needs_deserializer, arg_of. rewrite IH.
  destruct p as [nm an]; cbn [p_named_cm p_annot].
  destruct nm; cbn [orb andb].
  - destruct (forallb (des_fine des_ok) r); reflexivity.
  - destruct an as [| | |c]; cbn [annot_is_composite andb]; try (destruct (forallb (des_fine des_ok) r); reflexivity).
    destruct (des_ok c); cbn [andb]; [|reflexivity].
    destruct (forallb (des_fine des_ok) r); reflexivity.
Qed.

Lemma des_fine_forall : forall des_ok ps,
  forallb (des_fine des_ok) ps = true <->
  (forall c, In (Some c) (map needs_deserializer ps) -> des_ok c = true).
Proof.
  intros des_ok ps. rewrite forallb_forall. split.
  - intros Hf c Hin. apply in_map_iff in Hin. destruct Hin as [p [Hp Hin]].
    specialize (Hf p Hin). unfold des_fine in Hf. rewrite Hp in Hf. exact Hf.
  - intros Hc p Hin. unfold des_fine. destruct (needs_deserializer p) as [c|] eqn:E; [|reflexivity].
    apply Hc. rewrite <- E. apply in_map. exact Hin.
Qed.

Lemma arg_table : forall a c,
  arg_of {| p_named_cm := true; p_annot := a |} = VComposite /\
  arg_of {| p_named_cm := false; p_annot := AnComposite |} = VComposite /\
  arg_of {| p_named_cm := false; p_annot := AnEmpty |} = VPayload /\
  arg_of {| p_named_cm := false; p_annot := AnPayload |} = VPayload /\
  arg_of {| p_named_cm := false; p_annot := AnOther c |} = VDeserialized c.
Proof. intros. repeat split. Qed.

(* ------------------------------------------------------------------------------------------------ *)
(* dispatch, unfolded once and for all *)

Definition table_selected (tb : tables) (m : meth) (n : name) : option handler :=
  or_else (lookup_route n (get_slot (deco_slot (deco_of_meth m)) tb))
          (get_unknown (deco_unknown (deco_of_meth m)) tb).

Definition ran_result (m : meth) (ser_ok : bool) (h : handler) : result := expected_result m ser_ok (hdoes h).

Definition dispatch_unfolded (tb : tables) (v : verifier) (des_ok : N -> bool) (ser_ok : bool) (m : meth)
                             (md : metadata) : outcome :=
  match md with
  | MUnparseable => ErrorOn (meth_error m) WParse
  | MItems l =>
      match require_route l with
      | inl w => ErrorOn (meth_error m) w
      | inr n =>
          match verify_authentication v n l with
          | Some w => ErrorOn (meth_error m) w
          | None =>
              match table_selected tb m n with
              | None => ErrorOn (meth_error m) WUnknownRoute
              | Some h =>
                  if forallb (des_fine des_ok) (hparams h)
                  then Ran (hid h) (map arg_of (hparams h)) (ran_result m ser_ok h)
                  else ErrorOn (meth_error m) WDeserialize
              end
          end
      end
  end.

Lemma route_unfolded : forall tb des_ok ser_ok m n,
  route tb des_ok ser_ok (meth_frame_type m) n =
  match table_selected tb m n with
  | None => RRaised WUnknownRoute
  | Some h =>
      if forallb (des_fine des_ok) (hparams h)
      then RRan h (map arg_of (hparams h))
             (match hdoes h with
              | HRaise => inl WHandler
              | HRetFuture => inr DAsIs
              | HRetPayload => inr (if meth_frame_type m =? wrap_frame_type then DFuture else DAsIs)
              | HRetOther => if meth_frame_type m =? wrap_frame_type
                             then (if ser_ok then inr DFutureSer else inl WSerialize)
                             else inr DAsIs
              end)
      else RRaised WDeserialize
  end.
Proof.
  intros tb des_ok ser_ok m n. unfold route, table_selected.
  destruct (tables_aligned m) as [A B]. rewrite A, B.
  destruct (lookup_route n (get_slot (deco_slot (deco_of_meth m)) tb)) as [h|]; cbn [or_else].
  - rewrite collect_spec. destruct (forallb (des_fine des_ok) (hparams h)); reflexivity.
  - destruct (get_unknown (deco_unknown (deco_of_meth m)) tb) as [h|]; [|reflexivity].
    rewrite collect_spec. destruct (forallb (des_fine des_ok) (hparams h)); reflexivity.
Qed.

Lemma dispatch_eq : forall tb v des_ok ser_ok m md,
  dispatch tb v des_ok ser_ok m md = dispatch_unfolded tb v des_ok ser_ok m md.
Proof.
  intros tb v des_ok ser_ok m md. unfold dispatch, dispatch_unfolded, parse_and_route.
  destruct md as [|l]; [reflexivity|].
  destruct (require_route l) as [w|n]; [reflexivity|].
  destruct (verify_authentication v n l) as [w|]; [reflexivity|].
  rewrite route_unfolded.
  destruct (table_selected tb m n) as [h|]; [|reflexivity].
  destruct (forallb (des_fine des_ok) (hparams h)); [|reflexivity].
  unfold ran_result, expected_result.
  destruct (hdoes h), m, ser_ok; reflexivity.
Qed.

Lemma table_selected_build : forall rs m n, table_selected (build rs) m n = selected rs m n.
Proof.
  intros rs m n. unfold table_selected, selected. rewrite build_lookup, build_unknown. reflexivity.
Qed.

(* inversion of a run *)
Lemma ran_inv : forall tb v des_ok ser_ok m md h args r,
  dispatch tb v des_ok ser_ok m md = Ran h args r ->
  exists l n H, md = MItems l /\ require_route l = inr n /\ verify_authentication v n l = None /\
    table_selected tb m n = Some H /\ hid H = h /\ args = map arg_of (hparams H) /\
    forallb (des_fine des_ok) (hparams H) = true /\ r = expected_result m ser_ok (hdoes H).
Proof.
  intros tb v des_ok ser_ok m md h args r Hd. rewrite dispatch_eq in Hd. unfold dispatch_unfolded in Hd.
  destruct md as [|l]; [discriminate Hd|].
  destruct (require_route l) as [w|n] eqn:Er; [discriminate Hd|].
  destruct (verify_authentication v n l) as [w|] eqn:Ev; [discriminate Hd|].
  destruct (table_selected tb m n) as [H|] eqn:Es; [|discriminate Hd].
  destruct (forallb (des_fine des_ok) (hparams H)) eqn:Ef; [|discriminate Hd].
  injection Hd as <- <- <-.
  exists l, n, H. repeat split; auto.
Qed.

(* ------------------------------------------------------------------------------------------------ *)
(* C19_exact *)

Lemma exact_tables : forall tb v des_ok ser_ok m md h args r,
  dispatch tb v des_ok ser_ok m md = Ran h args r ->
  exists l n H, md = MItems l /\ require_route l = inr n /\ hid H = h /\
    (lookup_route n (get_slot (deco_slot (deco_of_meth m)) tb) = Some H \/
     (lookup_route n (get_slot (deco_slot (deco_of_meth m)) tb) = None /\
      get_unknown (deco_unknown (deco_of_meth m)) tb = Some H)).
Proof.
  intros tb v des_ok ser_ok m md h args r Hd.
  destruct (ran_inv _ _ _ _ _ _ _ _ _ Hd) as [l [n [H [A [B [_ [D [E _]]]]]]]].
  exists l, n, H. repeat split; auto. unfold table_selected in D.
  destruct (lookup_route n (get_slot (deco_slot (deco_of_meth m)) tb)) as [h0|]; cbn [or_else] in D.
  - left. exact D.
  - right. split; [reflexivity|exact D].
Qed.

Lemma exact : forall rs v des_ok ser_ok m md h args r,
  dispatch (build rs) v des_ok ser_ok m md = Ran h args r ->
  exists l n H, md = MItems l /\ require_route l = inr n /\ selected rs m n = Some H /\ hid H = h.
Proof.
  intros rs v des_ok ser_ok m md h args r Hd.
  destruct (ran_inv _ _ _ _ _ _ _ _ _ Hd) as [l [n [H [A [B [_ [D [E _]]]]]]]].
  rewrite table_selected_build in D. exists l, n, H. auto.
Qed.

Lemma selected_In : forall rs m n H, selected rs m n = Some H ->
  (In (Reg (deco_of_meth m) (Some n) H) rs /\ n <> []) \/
  ((forall h, first_registered rs (deco_of_meth m) n <> Some h) /\ In (RegUnknown (deco_of_meth m) H) rs).
Proof.
  intros rs m n H Hs. unfold selected in Hs.
  destruct (first_registered rs (deco_of_meth m) n) as [h0|] eqn:E.
  - injection Hs as <-. left. apply first_registered_In. exact E.
  - right. split; [intros h Hh; discriminate Hh|]. apply last_unknown_In. exact Hs.
Qed.

Lemma exact_own_type : forall rs v des_ok ser_ok m md h args r,
  dispatch (build rs) v des_ok ser_ok m md = Ran h args r ->
  exists l n H, md = MItems l /\ require_route l = inr n /\ hid H = h /\
    (In (Reg (deco_of_meth m) (Some n) H) rs \/ In (RegUnknown (deco_of_meth m) H) rs).
Proof.
  intros rs v des_ok ser_ok m md h args r Hd.
  destruct (exact _ _ _ _ _ _ _ _ _ Hd) as [l [n [H [A [B [C D]]]]]].
  exists l, n, H. repeat split; auto.
  destruct (selected_In _ _ _ _ C) as [[X _]|[_ X]]; [left|right]; exact X.
Qed.

(* a program that registers nothing under the request's own decorator for that name, and no unknown-route
   handler for it, never runs anything - whatever it registers for other types and other names *)
Lemma other_registrations_never_run : forall rs v des_ok ser_ok m l n,
  require_route l = inr n ->
  (forall H, ~ In (Reg (deco_of_meth m) (Some n) H) rs) ->
  (forall H, ~ In (RegUnknown (deco_of_meth m) H) rs) ->
  exists w, dispatch (build rs) v des_ok ser_ok m (MItems l) = ErrorOn (meth_error m) w.
Proof.
  intros rs v des_ok ser_ok m l n Hr H1 H2. rewrite dispatch_eq. unfold dispatch_unfolded. rewrite Hr.
  destruct (verify_authentication v n l) as [w|]; [eexists; reflexivity|].
  rewrite table_selected_build. unfold selected.
  rewrite (first_registered_none _ _ _ H1), (last_unknown_none _ _ H2). eexists; reflexivity.
Qed.

(* delivery: when the route is there, the gate is passed and the deserializer does not raise, that handler runs *)
Lemma delivered : forall rs v des_ok ser_ok m l n H,
  require_route l = inr n -> verify_authentication v n l = None -> selected rs m n = Some H ->
  (forall c, In (Some c) (map needs_deserializer (hparams H)) -> des_ok c = true) ->
  dispatch (build rs) v des_ok ser_ok m (MItems l) =
  Ran (hid H) (map arg_of (hparams H)) (expected_result m ser_ok (hdoes H)).
Proof.
  intros rs v des_ok ser_ok m l n H Hr Hv Hs Hd. rewrite dispatch_eq. unfold dispatch_unfolded.
  rewrite Hr, Hv, table_selected_build, Hs.
  apply des_fine_forall in Hd. rewrite Hd. reflexivity.
Qed.

(* ------------------------------------------------------------------------------------------------ *)
(* C19_error_local *)

Lemma error_local : forall rs v des_ok ser_ok m md,
  (forall l n, md = MItems l -> require_route l = inr n -> selected rs m n = None) ->
  exists w, dispatch (build rs) v des_ok ser_ok m md = ErrorOn (meth_error m) w.
Proof.
  intros rs v des_ok ser_ok m md Hn. rewrite dispatch_eq. unfold dispatch_unfolded.
  destruct md as [|l]; [eexists; reflexivity|].
  destruct (require_route l) as [w|n] eqn:Er; [eexists; reflexivity|].
  destruct (verify_authentication v n l) as [w|]; [eexists; reflexivity|].
  rewrite table_selected_build, (Hn l n eq_refl Er). eexists; reflexivity.
Qed.

Lemma error_reasons : forall rs v des_ok ser_ok m,
  dispatch (build rs) v des_ok ser_ok m MUnparseable = ErrorOn (meth_error m) WParse /\
  (forall l w, require_route l = inl w -> dispatch (build rs) v des_ok ser_ok m (MItems l) = ErrorOn (meth_error m) w) /\
  (forall l n, require_route l = inr n -> verify_authentication v n l = None -> selected rs m n = None ->
     dispatch (build rs) v des_ok ser_ok m (MItems l) = ErrorOn (meth_error m) WUnknownRoute).
Proof.
  intros rs v des_ok ser_ok m. repeat split.
  - intros l w Hr. rewrite dispatch_eq. unfold dispatch_unfolded. rewrite Hr. reflexivity.
  - intros l n Hr Hv Hs. rewrite dispatch_eq. unfold dispatch_unfolded.
    rewrite Hr, Hv, table_selected_build, Hs. reflexivity.
Qed.

Lemma require_route_reasons : forall l w, require_route l = inl w ->
  (w = WNoRoute /\ forall tags, ~ In (ERoute tags) l) \/
  ((w = WEmptyTags \/ w = WBadTag) /\ exists tags, In (ERoute tags) l).
Proof.
  induction l as [|e r IH]; intros w Hr; cbn [require_route] in Hr.
  - injection Hr as <-. left. split; [reflexivity|]. intros tags [].
  - destruct e as [tags|a|].
    + right. split; [|exists tags; left; reflexivity].
      destruct tags as [|[n|] ts]; [injection Hr as <-; left; reflexivity|discriminate Hr|
                                   injection Hr as <-; right; reflexivity].
    + destruct (IH _ Hr) as [[A B]|[A [tags B]]].
      * left. split; [exact A|]. intros tags [X|X]; [discriminate X|exact (B tags X)].
      * right. split; [exact A|]. exists tags. right. exact B.
    + destruct (IH _ Hr) as [[A B]|[A [tags B]]].
      * left. split; [exact A|]. intros tags [X|X]; [discriminate X|exact (B tags X)].
      * right. split; [exact A|]. exists tags. right. exact B.
Qed.

(* the route is the first tag of the first routing entry *)
Lemma require_route_first : forall l n, require_route l = inr n <->
  exists pre tags post, l = pre ++ ERoute (Tag n :: tags) :: post /\ (forall ts, ~ In (ERoute ts) pre).
Proof.
  induction l as [|e r IH]; intro n; cbn [require_route].
  - split; [intro H; discriminate H|]. intros [pre [tags [post [H _]]]]. destruct pre; discriminate H.
  - destruct e as [tags|a|].
    + split.
      * intro H. destruct tags as [|[n'|] ts]; try discriminate H. injection H as ->.
        exists [], ts, r. split; [reflexivity|]. intros ? [].
      * intros [pre [ts [post [H Hn]]]]. destruct pre as [|e pre].
        -- cbn in H. injection H as -> _. reflexivity.
        -- cbn in H. injection H as <- _. exfalso. apply (Hn tags). left. reflexivity.
    + rewrite IH. split.
      * intros [pre [ts [post [H Hn]]]]. exists (EAuth a :: pre), ts, post. split; [cbn; rewrite H; reflexivity|].
        intros ts' [X|X]; [discriminate X|exact (Hn ts' X)].
      * intros [pre [ts [post [H Hn]]]]. destruct pre as [|e pre]; [discriminate H|].
        cbn in H. injection H as <- ->. exists pre, ts, post. split; [reflexivity|].
        intros ts' X. apply (Hn ts'). right. exact X.
    + rewrite IH. split.
      * intros [pre [ts [post [H Hn]]]]. exists (EOther :: pre), ts, post. split; [cbn; rewrite H; reflexivity|].
        intros ts' [X|X]; [discriminate X|exact (Hn ts' X)].
      * intros [pre [ts [post [H Hn]]]]. destruct pre as [|e pre]; [discriminate H|].
        cbn in H. injection H as <- ->. exists pre, ts, post. split; [reflexivity|].
        intros ts' X. apply (Hn ts'). right. exact X.
Qed.

Lemma error_kind_only : forall tb v des_ok ser_ok m md,
  (forall k w, dispatch tb v des_ok ser_ok m md = ErrorOn k w -> k = meth_error m) /\
  (forall h args k w, dispatch tb v des_ok ser_ok m md = Ran h args (Failed k w) ->
     k = meth_error m /\ (w = WHandler \/ (w = WSerialize /\ m = MResponse /\ ser_ok = false))).
Proof.
  intros tb v des_ok ser_ok m md. split.
  - intros k w Hd. rewrite dispatch_eq in Hd. unfold dispatch_unfolded in Hd.
    destruct md as [|l]; [injection Hd as <- _; reflexivity|].
    destruct (require_route l) as [w0|n]; [injection Hd as <- _; reflexivity|].
    destruct (verify_authentication v n l); [injection Hd as <- _; reflexivity|].
    destruct (table_selected tb m n) as [H|]; [|injection Hd as <- _; reflexivity].
    destruct (forallb (des_fine des_ok) (hparams H)); [discriminate Hd|injection Hd as <- _; reflexivity].
  - intros h args k w Hd.
    destruct (ran_inv _ _ _ _ _ _ _ _ _ Hd) as [l [n [H [_ [_ [_ [_ [_ [_ [_ R]]]]]]]]]].
    unfold expected_result in R.
    destruct (hdoes H), m, ser_ok; try discriminate R; injection R as -> ->; auto.
Qed.

(* ------------------------------------------------------------------------------------------------ *)
(* C19_gate *)

Lemma gate : forall tb f des_ok ser_ok m md h args r,
  dispatch tb (Some f) des_ok ser_ok m md = Ran h args r ->
  exists l n a, md = MItems l /\ require_route l = inr n /\ first_auth l = Some a /\ f n a = true.
Proof.
  intros tb f des_ok ser_ok m md h args r Hd.
  destruct (ran_inv _ _ _ _ _ _ _ _ _ Hd) as [l [n [H [A [B [C _]]]]]].
  unfold verify_authentication in C.
  destruct (first_auth l) as [a|] eqn:Ea; [|discriminate C].
  destruct (f n a) eqn:Ef; [|discriminate C].
  exists l, n, a. auto.
Qed.

Lemma first_auth_none : forall l, first_auth l = None <-> (forall a, ~ In (EAuth a) l).
Proof.
  induction l as [|e r IH]; cbn [first_auth].
  - split; [intros _ a []|reflexivity].
  - destruct e as [tags|a|].
    + rewrite IH. split; intros Hn a; [intros [X|X]; [discriminate X|exact (Hn a X)]|].
      intro X. apply (Hn a). right. exact X.
    + split; [intro X; discriminate X|]. intro Hn. exfalso. apply (Hn a). left. reflexivity.
    + rewrite IH. split; intros Hn a; [intros [X|X]; [discriminate X|exact (Hn a X)]|].
      intro X. apply (Hn a). right. exact X.
Qed.

Lemma first_auth_In : forall l a, first_auth l = Some a -> In (EAuth a) l.
Proof.
  induction l as [|e r IH]; intros a Ha; cbn [first_auth] in Ha; [discriminate Ha|].
  destruct e as [tags|a'|]; [right; apply IH; exact Ha|injection Ha as ->; left; reflexivity|
                             right; apply IH; exact Ha].
Qed.

Lemma gate_no_credentials : forall tb f des_ok ser_ok m l,
  (forall a, ~ In (EAuth a) l) ->
  exists w, dispatch tb (Some f) des_ok ser_ok m (MItems l) = ErrorOn (meth_error m) w.
Proof.
  intros tb f des_ok ser_ok m l Hn. apply first_auth_none in Hn.
  rewrite dispatch_eq. unfold dispatch_unfolded.
  destruct (require_route l) as [w|n]; [eexists; reflexivity|].
  unfold verify_authentication. rewrite Hn. eexists; reflexivity.
Qed.

Lemma gate_rejected : forall tb f des_ok ser_ok m l,
  (forall n a, In (EAuth a) l -> f n a = false) ->
  exists w, dispatch tb (Some f) des_ok ser_ok m (MItems l) = ErrorOn (meth_error m) w.
Proof.
  intros tb f des_ok ser_ok m l Hrej.
  rewrite dispatch_eq. unfold dispatch_unfolded.
  destruct (require_route l) as [w|n]; [eexists; reflexivity|].
  unfold verify_authentication.
  destruct (first_auth l) as [a|] eqn:Ea; [|eexists; reflexivity].
  rewrite (Hrej n a (first_auth_In _ _ Ea)). eexists; reflexivity.
Qed.

(* only the first authentication entry is looked at *)
Definition only_cred_1 : name -> N -> bool := fun _ a => a =? 1.
Definition one_route : list reg := [Reg DResponse (Some [x61]) {| hid := 7; hparams := []; hdoes := HRetPayload |}].

Lemma gate_first_credentials_only :
  dispatch (build one_route) (Some only_cred_1) (fun _ => true) true MResponse
           (MItems [ERoute [Tag [x61]]; EAuth 2; EAuth 1]) = ErrorOn EFuture WAuthRejected /\
  dispatch (build one_route) (Some only_cred_1) (fun _ => true) true MResponse
           (MItems [ERoute [Tag [x61]]; EAuth 1; EAuth 2]) = Ran 7 [] (Delivered DFuture).
Proof. split; vm_compute; reflexivity. Qed.

(* ------------------------------------------------------------------------------------------------ *)
(* C19_arguments *)

Lemma arguments : forall rs v des_ok ser_ok m md h args r,
  dispatch (build rs) v des_ok ser_ok m md = Ran h args r ->
  exists l n H, md = MItems l /\ require_route l = inr n /\ selected rs m n = Some H /\ hid H = h /\
    args = map arg_of (hparams H) /\
    (forall c, In (Some c) (map needs_deserializer (hparams H)) -> des_ok c = true) /\
    r = expected_result m ser_ok (hdoes H).
Proof.
  intros rs v des_ok ser_ok m md h args r Hd.
  destruct (ran_inv _ _ _ _ _ _ _ _ _ Hd) as [l [n [H [A [B [_ [D [E [F [G R]]]]]]]]]].
  rewrite table_selected_build in D. pose proof (proj1 (des_fine_forall _ _) G) as G2.
  exists l, n, H. repeat split; auto.
Qed.

(* a parameter NAMED composite_metadata gets the composite metadata even when it is annotated Payload *)
Lemma name_overrides_annotation :
  dispatch (build [Reg DStream (Some [x61]) {| hid := 1; hparams := [{| p_named_cm := true; p_annot := AnPayload |}];
                                               hdoes := HRetOther |}])
           None (fun _ => true) true MStream (MItems [ERoute [Tag [x61]]]) = Ran 1 [VComposite] (Delivered DAsIs).
Proof. vm_compute. reflexivity. Qed.

(* ------------------------------------------------------------------------------------------------ *)
(* hypotheses that cannot be dropped *)

(* C19_delivered needs the deserializer hypothesis *)
Example delivered_needs_deserializer :
  dispatch (build [Reg DFnf (Some [x61]) {| hid := 1; hparams := [{| p_named_cm := false; p_annot := AnOther 5 |}];
                                            hdoes := HRetOther |}])
           None (fun _ => false) true MFnf (MItems [ERoute [Tag [x61]]]) = ErrorOn ESwallowed WDeserialize.
Proof. vm_compute. reflexivity. Qed.

(* an empty or None route cannot be registered: the request for '' falls to the unknown-route handler *)
Example empty_route_not_registered :
  build_raised empty_tables [Reg DResponse (Some []) {| hid := 1; hparams := []; hdoes := HRetPayload |};
                             Reg DResponse None {| hid := 2; hparams := []; hdoes := HRetPayload |}] = [true; true] /\
  dispatch (build [Reg DResponse (Some []) {| hid := 1; hparams := []; hdoes := HRetPayload |};
                   RegUnknown DResponse {| hid := 3; hparams := []; hdoes := HRetPayload |}])
           None (fun _ => true) true MResponse (MItems [ERoute [Tag []]]) = Ran 3 [] (Delivered DFuture).
Proof. split; vm_compute; reflexivity. Qed.
