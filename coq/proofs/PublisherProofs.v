From Coq Require Import ZArith NArith List Bool Lia ZifyBool ZifyNat ZifyN.
From RSV Require Import model.Publisher.
Import ListNotations.
Open Scope N_scope.

Definition sumN (l : list N) : N := fold_right N.add 0 l.
Definition lenE (l : list event) : N := N.of_nat (length l).

Lemma sumN_app a b : sumN (a ++ b) = sumN a + sumN b.
Proof. unfold sumN. induction a as [|x a IH]; [reflexivity|]. cbn [app fold_right]. rewrite IH. lia. Qed.
Lemma lenE_app a b : lenE (a ++ b) = lenE a + lenE b.
Proof. unfold lenE. rewrite app_length. lia. Qed.

Lemma lenE_snoc l e : lenE (l ++ [e]) = lenE l + 1.
Proof. rewrite lenE_app. unfold lenE. cbn [length]. lia. Qed.

Lemma firstnN_firstn l : forall n, firstnN l n = firstn (N.to_nat n) l.
Proof.
  induction l as [|x r IH]; intro n; cbn [firstnN]; [rewrite firstn_nil; reflexivity|].
  destruct (N.eqb_spec n 0) as [->|Hn]; [reflexivity|].
  replace (N.to_nat n) with (S (N.to_nat (N.pred n))) by lia. cbn [firstn]. rewrite IH. reflexivity.
Qed.

(* an event list with exactly one terminal event, at the end *)
Definition wf_events (evs : list event) : Prop :=
  exists init t, evs = init ++ [t] /\ terminal t = true /\ Forall (fun e => terminal e = false) init.

Lemma gen_events_wf src : wf_events (gen_events src).
Proof.
  induction src as [|[p c] r (init & t & E & Ht & Hi)]; cbn [gen_events].
  - exists [], (ENext 0 true). repeat split; constructor.
  - destruct c.
    + exists [], (ENext p true). repeat split; constructor.
    + exists (ENext p false :: init), t. rewrite E. repeat split; auto.
Qed.

Lemma obs_events_wf vs fails : wf_events (obs_events vs fails).
Proof.
  exists (map (fun v => ENext v false) vs), (if fails then EError else EComplete). repeat split.
  - destruct fails; reflexivity.
  - apply Forall_forall. intros e He. apply in_map_iff in He. destruct He as (v & <- & _). reflexivity.
Qed.

(* the rest of a well-formed list: empty, or again ending in its only terminal *)
Definition tail_ok (l : list event) : Prop := l = [] \/ wf_events l.

Lemma tail_ok_cons e r : wf_events (e :: r) -> (terminal e = true /\ r = []) \/ (terminal e = false /\ wf_events r).
Proof.
  intros (init & t & E & Ht & Hi). destruct init as [|x init].
  - cbn in E. injection E as -> ->. left. split; [exact Ht|reflexivity].
  - cbn in E. injection E as -> ->. inversion Hi; subst. right. split; [assumption|]. exists init, t. auto.
Qed.

Section Run.
  Variable evs : list event.
  Hypothesis Hwf : wf_events evs.

  Record Inv (s : pst) (R : N) : Prop := {
    i_order : delivered s ++ outq s ++ remaining s = evs;
    i_le : lenE (delivered s) + lenE (outq s) + batch s + sumN (reqq s) <= R;
    i_eq : cancelled s = false -> producing s = true ->
           lenE (delivered s) + lenE (outq s) + batch s + sumN (reqq s) = R;
    i_done : cancelled s = false -> producing s = false -> remaining s = [];
    i_more : cancelled s = false -> producing s = true -> wf_events (remaining s)
  }.

  Lemma inv_init : Inv (p_init evs) 0.
  Proof. constructor; cbn; auto; try lia; try discriminate. Qed.

  Definition req_of (l : plabel) : N := match l with PRequest n => n | _ => 0 end.

  Lemma inv_same s R R' : Inv s R -> R <= R' -> (cancelled s = true \/ R = R') -> Inv s R'.
  Proof.
    intros [Ho Hle Heq Hd Hm] HR [Hc|E]; [|subst R']; constructor; auto; try lia; try (intros; congruence).
  Qed.

  Lemma inv_step s R l : Inv s R -> Inv (pstep s l) (R + req_of l).
  Proof.
    intros HI. pose proof HI as [Ho Hle Heq Hd Hm]. destruct l as [n| | |]; cbn [pstep req_of]; rewrite ?N.add_0_r.
    - destruct (cancelled s) eqn:Ec.
      + apply (inv_same s R); [exact HI|lia|left; exact Ec].
      + constructor; cbn [delivered outq remaining reqq batch producing cancelled]; auto.
        * rewrite sumN_app. cbn. lia.
        * intros _ Hp. rewrite sumN_app. cbn. specialize (Heq eq_refl Hp). lia.
    - destruct (cancelled s) eqn:Ec; cbn [orb]; [exact HI|].
      destruct (producing s) eqn:Ep; cbn [negb]; [|exact HI].
      destruct (N.eqb_spec (batch s) 0) as [Eb|Eb].
      + destruct (reqq s) as [|n r] eqn:Eq; [exact HI|].
        specialize (Heq eq_refl eq_refl). cbn [sumN fold_right] in Heq, Hle.
        constructor; cbn [delivered outq remaining reqq batch producing cancelled]; auto; try lia; try discriminate.
        * fold (sumN r) in *. lia.
        * intros _ _. fold (sumN r) in *. lia.
      + specialize (Hm eq_refl eq_refl). specialize (Heq eq_refl eq_refl). destruct (remaining s) as [|e r] eqn:Er.
        { destruct Hm as (i & t & E & _). destruct i; discriminate. }
        destruct (tail_ok_cons e r Hm) as [[Ht ->]|[Ht Hr]]; rewrite Ht; cbn [negb].
        * constructor; cbn [delivered outq remaining reqq batch producing cancelled]; auto; try discriminate.
          -- rewrite <- Ho. rewrite <- !app_assoc. reflexivity.
          -- rewrite ?lenE_snoc. lia.
        * constructor; cbn [delivered outq remaining reqq batch producing cancelled]; auto; try discriminate.
          -- rewrite <- Ho. rewrite <- !app_assoc. reflexivity.
          -- rewrite ?lenE_snoc. lia.
          -- intros _ _. rewrite ?lenE_snoc. lia.
    - destruct (cancelled s) eqn:Ec; [exact HI|].
      destruct (outq s) as [|e r] eqn:Eo; [exact HI|].
      assert (lenE (e :: r) = 1 + lenE r) as Hl by (unfold lenE; cbn [length]; lia).
      constructor; cbn [delivered outq remaining reqq batch producing cancelled]; auto.
      + rewrite <- Ho. rewrite <- !app_assoc. reflexivity.
      + rewrite ?lenE_snoc. lia.
      + intros _ Hp. specialize (Heq eq_refl Hp). rewrite ?lenE_snoc. lia.
    - constructor; cbn [delivered outq remaining reqq batch producing cancelled]; auto; discriminate.
  Qed.

  Lemma requested_acc : forall ls acc,
    fold_left (fun a l => match l with PRequest n => a + n | _ => a end) ls acc =
    acc + fold_left (fun a l => match l with PRequest n => a + n | _ => a end) ls 0.
  Proof.
    induction ls as [|l r IH]; intro acc; cbn [fold_left]; [lia|].
    rewrite IH. rewrite (IH (match l with PRequest n => 0 + n | _ => 0 end)). destruct l; lia.
  Qed.

  Lemma requested_cons l r : requested (l :: r) = req_of l + requested r.
  Proof. unfold requested. cbn [fold_left]. rewrite requested_acc. destruct l; cbn [req_of]; lia. Qed.

  Lemma inv_run : forall ls s R, Inv s R -> Inv (fold_left pstep ls s) (R + requested ls).
  Proof.
    induction ls as [|l r IH]; intros s R H; cbn [fold_left].
    - unfold requested. cbn. rewrite N.add_0_r. exact H.
    - pose proof (IH _ _ (inv_step s R l H)) as H2.
      rewrite requested_cons. rewrite N.add_assoc. exact H2.
  Qed.

  (* SAFETY, every schedule: never more delivered than credited, and always a prefix of the source, in order *)
  Theorem credit_safety ls :
    let s := prun evs ls in
    lenE (delivered s) + lenE (outq s) <= requested ls /\ exists rest, evs = delivered s ++ rest.
  Proof.
    cbv zeta. unfold prun. pose proof (inv_run ls (p_init evs) 0 inv_init) as [Ho Hle _ _ _]. rewrite N.add_0_l in Hle.
    split; [lia|]. eexists. symmetry. exact Ho.
  Qed.

  (* PROGRESS: once nothing more can happen without new credit, exactly the credited events were delivered *)
  Theorem settled_delivery ls :
    let s := prun evs ls in
    quiescent s = true -> cancelled s = false -> delivered s = settled evs (requested ls).
  Proof.
    cbv zeta. unfold prun. pose proof (inv_run ls (p_init evs) 0 inv_init) as [Ho Hle Heq Hd Hm]. rewrite N.add_0_l in *.
    set (s := fold_left pstep ls (p_init evs)) in *. unfold quiescent. intros Hq Hc. rewrite Hc in Hq. cbn [orb] in Hq.
    apply andb_true_iff in Hq. destruct Hq as [Hoq Hrest].
    assert (outq s = []) as Eo by (destruct (outq s); [reflexivity|discriminate]).
    rewrite Eo in *. cbn [app] in Ho. unfold settled. rewrite firstnN_firstn.
    destruct (producing s) eqn:Ep; cbn [negb orb] in Hrest.
    - apply andb_true_iff in Hrest. destruct Hrest as [Hb Hr]. apply N.eqb_eq in Hb.
      assert (reqq s = []) as Er by (destruct (reqq s); [reflexivity|discriminate]).
      specialize (Heq Hc eq_refl). rewrite Hb, Er in Heq. cbn in Heq.
      rewrite <- Ho. rewrite firstn_app.
      assert (N.to_nat (requested ls) = length (delivered s)) as -> by (unfold lenE in Heq; lia).
      rewrite firstn_all, Nat.sub_diag. cbn. rewrite app_nil_r. reflexivity.
    - rewrite (Hd Hc eq_refl) in Ho. rewrite app_nil_r in Ho. rewrite <- Ho.
      rewrite firstn_all2; [reflexivity|]. unfold lenE in Hle. cbn in Hle. lia.
  Qed.

  (* CANCEL: after cancel() nothing is delivered any more, whatever else happens *)
  Theorem cancel_silences : forall ls s, cancelled s = true ->
    delivered (fold_left pstep ls s) = delivered s /\ cancelled (fold_left pstep ls s) = true.
  Proof.
    induction ls as [|l r IH]; intros s Hc; [split; [reflexivity|exact Hc]|]. cbn [fold_left].
    assert (delivered (pstep s l) = delivered s /\ cancelled (pstep s l) = true) as [E1 E2].
    { destruct l; cbn [pstep]; rewrite ?Hc; cbn; auto. }
    destruct (IH (pstep s l) E2) as [I1 I2]. split; congruence.
  Qed.

  (* ... and nothing is produced any more: the source is not pulled again *)
  Theorem cancel_stops_production : forall ls s, cancelled s = true ->
    remaining (fold_left pstep ls s) = remaining s /\ outq (fold_left pstep ls s) = outq s.
  Proof.
    induction ls as [|l r IH]; intros s Hc; [split; reflexivity|]. cbn [fold_left].
    assert (remaining (pstep s l) = remaining s /\ outq (pstep s l) = outq s /\ cancelled (pstep s l) = true) as (E1 & E2 & E3).
    { destruct l; cbn [pstep]; rewrite ?Hc; cbn; auto. }
    destruct (IH (pstep s l) E3) as [I1 I2]. split; congruence.
  Qed.

  Theorem cancel_is_cancelled : forall s, cancelled (pstep s PCancel) = true.
  Proof. reflexivity. Qed.
End Run.

Example generator_example :
  delivered (prun (gen_events [(1, false); (2, false); (3, false)])
                  [PRequest 2; PNStep; PNStep; PPStep; PNStep; PPStep; PNStep; PRequest 5; PNStep; PNStep; PNStep; PPStep; PPStep; PNStep])
  = [ENext 1 false; ENext 2 false; ENext 3 false; ENext 0 true].
Proof. vm_compute. reflexivity. Qed.
