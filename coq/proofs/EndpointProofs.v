From Coq Require Import Arith NArith List Bool Lia Init.Byte.
From RSV Require Import gen.GenConst lib.Bytes model.Frame model.Fragmenter model.StreamIds model.Endpoint
     proofs.SendQueueProofs.
Import ListNotations.
Open Scope N_scope.

(* ---------- association-list facts ---------- *)
Lemma tget_tremove t k k' : tget (tremove t k) k' = if k =? k' then None else tget t k'.
Proof.
  unfold tremove. induction t as [|[a v] r IH]; cbn [filter tget fst]; [destruct (k =? k'); reflexivity|].
  destruct (N.eqb_spec a k) as [->|Hak]; cbn [negb].
  - rewrite IH. destruct (N.eqb_spec k k'); reflexivity.
  - cbn [tget]. rewrite IH. destruct (N.eqb_spec a k') as [->|]; [|reflexivity].
    destruct (N.eqb_spec k k'); [congruence|reflexivity].
Qed.

Lemma tget_tset t k v k' : tget (tset t k v) k' = if k =? k' then Some v else tget t k'.
Proof. unfold tset. cbn [tget]. rewrite tget_tremove. destruct (k =? k'); reflexivity. Qed.

Lemma nth_oset_same : forall l i o, (i < length l)%nat -> nth_error (oset l i o) i = Some o.
Proof. induction l as [|x r IH]; intros [|i] o H; cbn in *; try lia; [reflexivity|apply IH; lia]. Qed.

Lemma nth_oset_other : forall l i j o, i <> j -> nth_error (oset l i o) j = nth_error l j.
Proof.
  induction l as [|x r IH]; intros [|i] [|j] o H; cbn; try reflexivity; try congruence. apply IH. congruence.
Qed.

Lemma oset_length : forall l i o, length (oset l i o) = length l.
Proof. induction l as [|x r IH]; intros [|i] o; cbn; auto. Qed.

(* ---------- basic observations on the building blocks ---------- *)
Lemma finish_table_get e sid k : tget (table (finish e sid)) k = if sid =? k then None else tget (table e) k.
Proof. cbn. apply tget_tremove. Qed.
Lemma finish_cache_get e sid k : cache_get (cachek (finish e sid)) k = if sid =? k then None else cache_get (cachek e) k.
Proof. cbn. apply cache_get_remove. Qed.
Lemma finish_objs e sid : objs (finish e sid) = objs e.
Proof. reflexivity. Qed.
Lemma set_obj_table e oid o : table (set_obj e oid o) = table e /\ cachek (set_obj e oid o) = cachek e.
Proof. split; reflexivity. Qed.

Lemma chan_mark_table e oid o s r k : k <> o_sid o ->
  tget (table (chan_mark e oid o s r)) k = tget (table e) k /\
  cache_get (cachek (chan_mark e oid o s r)) k = cache_get (cachek e) k.
Proof.
  intro Hk. unfold chan_mark. destruct (_ && _).
  - rewrite finish_table_get, finish_cache_get. cbn [o_sid upd_marks].
    destruct (N.eqb_spec (o_sid o) k); [congruence|]. split; reflexivity.
  - split; reflexivity.
Qed.

Lemma chan_mark_objs e oid o s r j : j <> oid -> nth_error (objs (chan_mark e oid o s r)) j = nth_error (objs e) j.
Proof.
  intro Hj. unfold chan_mark. destruct (_ && _); [rewrite finish_objs|]; cbn [objs set_obj]; apply nth_oset_other; congruence.
Qed.

(* ---------- C12: handling one frame touches only that frame's stream ---------- *)
(* a frame handed to the handler registered for its stream *)
Lemma handler_frame_local e oid o f u k : k <> o_sid o ->
  let '(e', effs, _) := handler_frame e oid o f u in
  tget (table e') k = tget (table e) k /\ cache_get (cachek e') k = cache_get (cachek e) k /\
  (forall j, j <> oid -> nth_error (objs e') j = nth_error (objs e) j) /\
  Forall (fun x => match x with XEnq g => fsid g = o_sid o | XFut i _ _ _ | XCb i _ | XPub i _ | XAppFutCancel i => i = oid
                              | XHandler _ _ _ | XRaised => False end) effs.
Proof.
  intro Hk. unfold handler_frame.
  assert (forall e0, tget (table (finish e0 (o_sid o))) k = tget (table e0) k /\
                     cache_get (cachek (finish e0 (o_sid o))) k = cache_get (cachek e0) k) as Hfin.
  { intro e0. rewrite finish_table_get, finish_cache_get. destruct (N.eqb_spec (o_sid o) k); [congruence|]. split; reflexivity. }
  assert (forall o', forall j, j <> oid -> nth_error (objs (set_obj e oid o')) j = nth_error (objs e) j) as Hset.
  { intros o' j Hj. cbn. apply nth_oset_other. congruence. }
  destruct (o_kind o); destruct f; try (repeat split; auto; constructor);
    repeat match goal with
           | |- context [match o_fut o with _ => _ end] => destruct (o_fut o)
           | |- context [if ?b then _ else _] => destruct b
           end;
    cbn [fst snd];
    repeat match goal with
           | |- _ /\ _ => split
           | |- Forall _ [] => constructor
           | |- Forall _ (_ :: _) => constructor; [cbn; auto|]
           | |- forall j, _ => intros j Hj
           end;
    try reflexivity;
    try (rewrite ?finish_objs; cbn [objs set_obj]; rewrite ?nth_oset_other by congruence; reflexivity);
    try (destruct (Hfin (set_obj e oid (upd_fut (upd_responded o) FResolved))) as [A B]; first [exact A|exact B]);
    try (destruct (Hfin (set_obj e oid (upd_responded o))) as [A B]; first [exact A|exact B]);
    try (destruct (Hfin (set_obj e oid (upd_fut o FCancelled))) as [A B]; first [exact A|exact B]);
    try (destruct (Hfin e) as [A B]; first [exact A|exact B]);
    try (destruct (chan_mark_table e oid o true false k Hk) as [A B]; first [exact A|exact B]);
    try (destruct (chan_mark_table e oid o false true k Hk) as [A B]; first [exact A|exact B]);
    try (apply chan_mark_objs; exact Hj).
Qed.

(* ---------- well-formedness: the table points at objects that know their own stream id ---------- *)
Definition WF (e : ep) : Prop :=
  forall sid oid, tget (table e) sid = Some oid -> exists o, nth_error (objs e) oid = Some o /\ o_sid o = sid.

Lemma register_obj_spec e sid o k :
  tget (table (register_obj e sid o)) k = (if sid =? k then Some (length (objs e)) else tget (table e) k) /\
  cachek (register_obj e sid o) = cachek e /\
  (forall j, (j < length (objs e))%nat -> nth_error (objs (register_obj e sid o)) j = nth_error (objs e) j) /\
  nth_error (objs (register_obj e sid o)) (length (objs e)) = Some o.
Proof.
  unfold register_obj. cbn [table objs cachek]. split; [apply tget_tset|]. split; [reflexivity|]. split.
  - intros j Hj. apply nth_error_app1. exact Hj.
  - rewrite nth_error_app2 by lia. rewrite Nat.sub_diag. reflexivity.
Qed.

Lemma WF_oid_bound e sid oid : WF e -> tget (table e) sid = Some oid -> (oid < length (objs e))%nat.
Proof. intros W H. destruct (W sid oid H) as (o & Ho & _). apply nth_error_Some. congruence. Qed.

(* dispatch of a complete frame *)
Lemma open_responder_local e f o k : k <> fsid f ->
  let '(e', effs) := open_responder e f o in
  tget (table e') k = tget (table e) k /\ cache_get (cachek e') k = cache_get (cachek e) k /\
  (forall j, (j < length (objs e))%nat -> nth_error (objs e') j = nth_error (objs e) j) /\
  Forall (fun x => match x with XEnq g => fsid g = fsid f | _ => True end) effs.
Proof.
  intro Hk. unfold open_responder.
  destruct f; destruct o; try (repeat split; auto; constructor); cbn [fsid] in *.
  - (* request-response *)
    destruct (register_obj_spec e sid (mk_obj KRRResp sid) k) as (A & B & C & _).
    rewrite A, B. destruct (N.eqb_spec sid k); [congruence|]. repeat split; auto; repeat (constructor; try exact I).
  - destruct (register_obj_spec e sid (upd_sub (mk_obj KRSResp sid) true false) k) as (A & B & C & _).
    rewrite A, B. destruct (N.eqb_spec sid k); [congruence|]. repeat split; auto; repeat (constructor; try exact I).
  - (* channel *)
    set (ob := upd_sub (mk_obj KChanResp sid) has_pub has_sub).
    set (oid := length (objs e)).
    destruct (register_obj_spec e sid ob k) as (A & B & C & D). fold oid in A, C, D.
    assert (o_sid ob = sid) as Hob by reflexivity.
    assert (forall e0 o0 s r, o_sid o0 = sid ->
              tget (table (chan_mark e0 oid o0 s r)) k = tget (table e0) k /\
              cache_get (cachek (chan_mark e0 oid o0 s r)) k = cache_get (cachek e0) k) as Hcm.
    { intros e0 o0 s r Ho0. apply chan_mark_table. congruence. }
    assert (forall e0 o0 s r j, (j < oid)%nat -> nth_error (objs (chan_mark e0 oid o0 s r)) j = nth_error (objs e0) j) as Hco.
    { intros e0 o0 s r j Hj. apply chan_mark_objs. lia. }
    destruct has_sub, has_pub, complete; cbn [fst snd];
      repeat match goal with
             | |- _ /\ _ => split
             | |- forall j, _ => intros j Hj
             end;
      rewrite ?Hco by exact Hj; rewrite ?C by exact Hj; try reflexivity;
      repeat match goal with
             | |- context [tget (table (chan_mark ?e0 oid ?o0 ?s ?r)) k] => rewrite (proj1 (Hcm e0 o0 s r eq_refl))
             | |- context [cache_get (cachek (chan_mark ?e0 oid ?o0 ?s ?r)) k] => rewrite (proj2 (Hcm e0 o0 s r eq_refl))
             end;
      rewrite ?A, ?B; try (destruct (N.eqb_spec sid k); [congruence|reflexivity]);
      try (repeat (constructor; [cbn; auto|]); constructor).
Qed.

Definition enq_on (sid : N) (effs : list effect) : Prop :=
  Forall (fun x => match x with XEnq g => fsid g = sid | _ => True end) effs.

Lemma enq_on_app sid a b : enq_on sid a -> enq_on sid b -> enq_on sid (a ++ b).
Proof. unfold enq_on. intros. apply Forall_app. split; assumption. Qed.

Lemma recv_dispatch_local e f o u k : WF e -> k <> fsid f ->
  let '(e', effs) := recv_dispatch e f o u in
  tget (table e') k = tget (table e) k /\ cache_get (cachek e') k = cache_get (cachek e) k /\ enq_on (fsid f) effs.
Proof.
  intros W Hk. unfold recv_dispatch.
  destruct ((fsid f =? CONNECTION_STREAM_ID) || is_request_type f) eqn:Ed.
  - assert (forall c, enq_on (fsid f) [raised_error (fsid f) c]) as Herr
      by (intro c; constructor; [reflexivity|constructor]).
    destruct f; cbn [fsid] in *;
      try (repeat split; try reflexivity; repeat (constructor; try exact I); fail);
      try (destruct (tget (table e) sid); [repeat split; try reflexivity; apply Herr|]);
      try (destruct (default_outcome _ o);
           try (repeat split; try reflexivity; repeat (constructor; try exact I; try reflexivity); fail));
      try (destruct (sid =? CONNECTION_STREAM_ID);
           [repeat split; try reflexivity; repeat (constructor; try exact I; try reflexivity)|]).
    all: try (match goal with
              | |- let '(_, _) := open_responder ?e0 ?f0 ?o0 in _ =>
                  pose proof (open_responder_local e0 f0 o0 k Hk) as H; cbn [fsid] in H;
                  destruct (open_responder e0 f0 o0) as [e' effs]; destruct H as (A & B & _ & D);
                  repeat split; assumption
              end).
    all: try (destruct respond; repeat split; try reflexivity; repeat (constructor; try exact I; try reflexivity)).
    all: try (destruct o; repeat split; try reflexivity; repeat (constructor; try exact I; try reflexivity)).
  - destruct (tget (table e) (fsid f)) as [oid|] eqn:Et; [|repeat split; try reflexivity; constructor].
    destruct (W _ _ Et) as (ob & Hob & Hsid). rewrite Hob.
    pose proof (handler_frame_local e oid ob f u k) as H. rewrite Hsid in H. specialize (H Hk).
    destruct (handler_frame e oid ob f u) as [[e' effs] raised]. destruct H as (A & B & _ & D).
    split; [exact A|]. split; [exact B|]. apply enq_on_app.
    + eapply Forall_impl; [|exact D]. intros x Hx. destruct x; auto.
    + destruct raised; [constructor; [reflexivity|constructor]|constructor].
Qed.

(* reassembly entries are stored under their own stream id *)
Definition CWF (c : cache) : Prop := forall k g, cache_get c k = Some g -> fsid g = k.

Lemma merge_sid cur x : fsid (merge cur x) = fsid cur.
Proof. destruct cur; reflexivity. Qed.

Lemma cache_append_spec c f : CWF c ->
  CWF (fst (cache_append c f)) /\ match snd (cache_append c f) with AFrame g => fsid g = fsid f | _ => True end.
Proof.
  intro W. unfold cache_append, builder.
  destruct (ffollows f).
  - destruct (cache_get c (fsid f)) as [cur|] eqn:Ec.
    + destruct (is_payload f); cbn [fst snd]; [|split; [exact W|exact I]]. split; [|exact I].
      intros k g. rewrite cache_get_set. destruct (N.eqb_spec (fsid f) k) as [<-|]; [|apply W].
      intro E. injection E as <-. rewrite merge_sid. apply (W _ _ Ec).
    + cbn [fst snd]. split; [|exact I]. intros k g. rewrite cache_get_set.
      destruct (N.eqb_spec (fsid f) k) as [<-|]; [|apply W]. intro E. injection E as <-. reflexivity.
  - destruct (cache_get c (fsid f)) as [cur|] eqn:Ec; [|cbn; split; [exact W|reflexivity]].
    destruct (is_payload f); cbn [fst snd]; [|split; [exact W|exact I]]. split.
    + intros k g. rewrite cache_get_remove. destruct (N.eqb_spec (fsid f) k); [discriminate|apply W].
    + rewrite merge_sid. apply (W _ _ Ec).
Qed.

(* the whole handling of one received frame, reassembly included *)
Theorem recv_frame_local e f o u k : WF e -> CWF (cachek e) -> k <> fsid f ->
  let '(e', effs) := recv_frame e f o u in
  tget (table e') k = tget (table e) k /\ cache_get (cachek e') k = cache_get (cachek e) k /\ enq_on (fsid f) effs.
Proof.
  intros W CW Hk. unfold recv_frame. destruct (stray_fragment e f); [repeat split; constructor|].
  destruct (is_fragmentable f) eqn:Ef; [|apply recv_dispatch_local; assumption].
  pose proof (cache_append_local (cachek e) f k Hk) as Hc.
  pose proof (cache_append_spec (cachek e) f CW) as [_ Hs].
  destruct (cache_append (cachek e) f) as [c' a] eqn:Ea. cbn [fst snd] in Hc, Hs.
  destruct a as [g| |].
  - set (e1 := {| sc := sc e; table := table e; objs := objs e; cachek := c' |}).
    assert (WF e1) as W1 by exact W.
    pose proof (recv_dispatch_local e1 g o u k W1) as H. rewrite Hs in H. specialize (H Hk).
    destruct (recv_dispatch e1 g o u) as [e' effs]. destruct H as (A & B & C).
    split; [exact A|]. split; [rewrite B; exact Hc|exact C].
  - repeat split; try reflexivity; [exact Hc|constructor].
  - repeat split; try reflexivity. constructor; [reflexivity|constructor].
Qed.

(* ---------- C13: an incoming request that reuses an active id is rejected and replaces nothing ---------- *)
Theorem duplicate_request_rejected e f o u oid :
  is_request_type f = true -> ffollows f = false -> cache_get (cachek e) (fsid f) = None ->
  tget (table e) (fsid f) = Some oid ->
  recv_frame e f o u = (e, [XEnq (f_error (fsid f) EC_REJECTED [])]).
Proof.
  intros Hr Hf Hc Ht. unfold recv_frame.
  assert (stray_fragment e f = false) as -> by (destruct f; try discriminate Hr; reflexivity).
  assert (is_fragmentable f = true) as -> by (destruct f; try discriminate Hr; reflexivity).
  unfold cache_append. rewrite Hf, Hc.
  assert ({| sc := sc e; table := table e; objs := objs e; cachek := cachek e |} = e) as -> by (destruct e; reflexivity).
  unfold recv_dispatch. rewrite Hr, orb_true_r.
  destruct f; try discriminate Hr; cbn [fsid] in *; rewrite Ht; reflexivity.
Qed.

(* ---------- invariant of reachable endpoint states ---------- *)
Record Inv (e : ep) : Prop := {
  inv_keys : NoDup (map fst (table e));
  inv_objs : forall s i, In (s, i) (table e) -> exists o, nth_error (objs e) i = Some o /\ o_sid o = s;
  inv_cwf : CWF (cachek e)
}.

Lemma tget_In t s i : NoDup (map fst t) -> (tget t s = Some i <-> In (s, i) t).
Proof.
  induction t as [|[a v] r IH]; cbn [tget map]; intro N; [split; [discriminate|intros []]|].
  inversion N as [|? ? Hn N']; subst. destruct (N.eqb_spec a s) as [->|Hne].
  - split.
    + intro E. injection E as ->. left. reflexivity.
    + intros [E|Hin]; [injection E as ->; reflexivity|]. exfalso. apply Hn. apply in_map_iff. exists (s, i). split; [reflexivity|exact Hin].
  - rewrite (IH N'). split; [intro H; right; exact H|intros [E|H]; [injection E as -> _; congruence|exact H]].
Qed.

Lemma inv_WF e : Inv e -> WF e.
Proof. intros [K O _] s i Ht. apply O. apply tget_In; assumption. Qed.

Lemma tremove_In t k s i : In (s, i) (tremove t k) <-> In (s, i) t /\ s <> k.
Proof.
  unfold tremove. rewrite filter_In. cbn [fst]. split; intros [H1 H2]; (split; [exact H1|]).
  - apply negb_true_iff in H2. apply N.eqb_neq in H2. exact H2.
  - apply negb_true_iff. apply N.eqb_neq. exact H2.
Qed.

Lemma tremove_keys_nodup t k : NoDup (map fst t) -> NoDup (map fst (tremove t k)).
Proof.
  unfold tremove. induction t as [|[a v] r IH]; cbn [filter map]; intro H; [constructor|].
  inversion H as [|? ? Hn H']; subst. destruct (negb (fst (a, v) =? k)); cbn [map fst]; [|apply IH; exact H'].
  constructor; [|apply IH; exact H']. intro Hin. apply Hn.
  apply in_map_iff in Hin. destruct Hin as ([s i] & E & Hin). cbn in E. subst s.
  apply filter_In in Hin. apply in_map_iff. exists (a, i). split; [reflexivity|apply Hin].
Qed.

Lemma inv_finish e sid : Inv e -> Inv (finish e sid).
Proof.
  intros [K O C]. constructor.
  - cbn. apply tremove_keys_nodup. exact K.
  - intros s i Hin. cbn [finish table objs] in *. apply tremove_In in Hin. apply O. apply Hin.
  - intros k g. rewrite finish_cache_get. destruct (sid =? k); [discriminate|apply C].
Qed.

Lemma inv_finish_table e sid : Inv e -> Inv (finish_table e sid).
Proof.
  intros [K O C]. constructor.
  - cbn. apply tremove_keys_nodup. exact K.
  - intros s i Hin. cbn [finish_table table objs] in *. apply tremove_In in Hin. apply O. apply Hin.
  - exact C.
Qed.

Lemma inv_set_obj e oid o o' : Inv e -> nth_error (objs e) oid = Some o -> o_sid o' = o_sid o -> Inv (set_obj e oid o').
Proof.
  intros [K O C] Ho Hs. constructor; [exact K| |exact C].
  intros s i Hin. cbn [set_obj table objs] in *. destruct (O s i Hin) as (x & Hx & Hxs).
  destruct (Nat.eq_dec i oid) as [->|Hne].
  - exists o'. split; [apply nth_oset_same; apply nth_error_Some; congruence|]. congruence.
  - exists x. split; [rewrite nth_oset_other by congruence; exact Hx|exact Hxs].
Qed.

Lemma inv_register e sid o : Inv e -> o_sid o = sid -> Inv (register_obj e sid o).
Proof.
  intros [K O C] Hs. constructor.
  - cbn [register_obj table tset map fst]. constructor; [|apply tremove_keys_nodup; exact K].
    intro Hin. apply in_map_iff in Hin. destruct Hin as ([s i] & E & Hin). cbn in E. subst s.
    apply tremove_In in Hin. destruct Hin as [_ Hne]. congruence.
  - intros s i Hin. cbn [register_obj table objs tset] in *. destruct Hin as [E|Hin].
    + injection E as <- <-. exists o. split; [|exact Hs]. rewrite nth_error_app2 by lia. rewrite Nat.sub_diag. reflexivity.
    + apply tremove_In in Hin. destruct (O s i (proj1 Hin)) as (x & Hx & Hxs). exists x. split; [|exact Hxs].
      rewrite nth_error_app1; [exact Hx|]. apply nth_error_Some. congruence.
  - exact C.
Qed.

Lemma inv_chan_mark e oid o s r : Inv e -> nth_error (objs e) oid = Some o -> Inv (chan_mark e oid o s r).
Proof.
  intros I Ho. unfold chan_mark.
  assert (Inv (set_obj e oid (upd_marks o s r))) as I1 by (apply (inv_set_obj e oid o); [exact I|exact Ho|reflexivity]).
  destruct (_ && _); [apply inv_finish|]; exact I1.
Qed.

Lemma chan_mark_nth e oid o s r : (oid < length (objs e))%nat ->
  nth_error (objs (chan_mark e oid o s r)) oid = Some (upd_marks o s r).
Proof.
  intro H. unfold chan_mark. destruct (_ && _); [rewrite finish_objs|]; cbn [set_obj objs]; apply nth_oset_same; exact H.
Qed.

Lemma inv_init first : Inv (ep_init first).
Proof. constructor; cbn; [constructor|intros s i []|intros k g; discriminate]. Qed.

Ltac inv_solve Ho :=
  repeat first
    [ assumption
    | apply inv_finish
    | apply inv_finish_table
    | apply inv_chan_mark; [|first [exact Ho | (rewrite chan_mark_nth by (apply nth_error_Some; congruence); reflexivity)]]
    | eapply inv_set_obj; [|exact Ho|reflexivity] ].

Lemma inv_handler_frame e oid o f u : Inv e -> nth_error (objs e) oid = Some o ->
  Inv (fst (fst (handler_frame e oid o f u))).
Proof.
  intros I Ho. unfold handler_frame.
  destruct (o_kind o); destruct f; cbn [fst]; try exact I;
    repeat match goal with
           | |- context [match o_fut o with _ => _ end] => destruct (o_fut o)
           | |- context [if ?b then _ else _] => destruct b
           end; cbn [fst]; inv_solve Ho.
Qed.

Lemma inv_open_responder e f o : Inv e -> Inv (fst (open_responder e f o)).
Proof.
  intro I. unfold open_responder.
  destruct f; destruct o; cbn [fst]; try exact I.
  - apply inv_register; [exact I|reflexivity].
  - apply inv_register; [exact I|reflexivity].
  - set (ob := upd_sub (mk_obj KChanResp sid) has_pub has_sub).
    assert (Inv (register_obj e sid ob)) as I1 by (apply inv_register; [exact I|reflexivity]).
    assert (nth_error (objs (register_obj e sid ob)) (length (objs e)) = Some ob) as Hn
      by (apply (register_obj_spec e sid ob 0)).
    assert (length (objs e) < length (objs (register_obj e sid ob)))%nat as Hl by (apply nth_error_Some; congruence).
    destruct has_sub, has_pub, complete; cbn [fst];
      repeat first
        [ exact I1
        | apply inv_chan_mark;
          [|first [exact Hn
                  | (rewrite ?chan_mark_nth; [reflexivity| unfold chan_mark; repeat (destruct (_ && _)); rewrite ?finish_objs; cbn [set_obj objs]; rewrite ?oset_length; exact Hl ..])]] ].
Qed.

Lemma inv_recv_dispatch e f o u : Inv e -> Inv (fst (recv_dispatch e f o u)).
Proof.
  intro I. unfold recv_dispatch.
  destruct ((fsid f =? CONNECTION_STREAM_ID) || is_request_type f).
  - destruct f; cbn [fst]; try exact I;
      try (destruct (tget (table e) _); cbn [fst]; [exact I|]);
      try (destruct (default_outcome _ o); cbn [fst]; try exact I);
      try (destruct (_ =? CONNECTION_STREAM_ID); cbn [fst]; try exact I);
      try apply inv_open_responder; try exact I.
    all: try (destruct respond; exact I).
  - destruct (tget (table e) (fsid f)) as [oid|] eqn:Et; [|exact I].
    destruct (inv_WF e I _ _ Et) as (ob & Hob & _). rewrite Hob.
    pose proof (inv_handler_frame e oid ob f u I Hob) as H.
    destruct (handler_frame e oid ob f u) as [[e' effs] raised]. exact H.
Qed.

Lemma inv_recv_frame e f o u : Inv e -> Inv (fst (recv_frame e f o u)).
Proof.
  intro I. unfold recv_frame. destruct (stray_fragment e f); [exact I|]. destruct (is_fragmentable f); [|apply inv_recv_dispatch; exact I].
  pose proof (cache_append_spec (cachek e) f (inv_cwf e I)) as [Hc _].
  destruct (cache_append (cachek e) f) as [c' a]. cbn [fst] in Hc.
  assert (Inv {| sc := sc e; table := table e; objs := objs e; cachek := c' |}) as I1
    by (destruct I as [K O C]; constructor; assumption).
  destruct a; cbn [fst]; [apply inv_recv_dispatch; exact I1|exact I1|exact I].
Qed.

Lemma inv_close_one e sid oid : Inv e -> Inv (fst (close_one e sid oid)).
Proof.
  intro I. unfold close_one. destruct (nth_error (objs e) oid) as [ob|] eqn:Ho; [|apply inv_finish_table; exact I].
  set (r1 := if is_requester (o_kind ob) then _ else _).
  assert (Inv (fst r1)) as I1.
  { unfold r1. destruct (is_requester (o_kind ob)); [|exact I].
    pose proof (inv_handler_frame e oid ob (f_error sid EC_CONNECTION_ERROR []) true I Ho) as H.
    destruct (handler_frame e oid ob _ true) as [[e' effs] r]. exact H. }
  destruct r1 as [e1 eff1]. cbn [fst] in I1.
  destruct (nth_error (objs e1) oid) as [x|] eqn:Hx.
  - destruct (o_kind x); cbn [fst]; try (apply inv_finish_table; exact I1).
    + destruct (o_fut x); cbn [fst]; apply inv_finish_table; try exact I1.
      eapply inv_set_obj; [exact I1|exact Hx|reflexivity].
  - destruct (o_kind ob); cbn [fst]; try (apply inv_finish_table; exact I1).
    destruct (o_fut ob); cbn [fst]; apply inv_finish_table; try exact I1.
    (* object oid does not exist in e1 although it existed in e: impossible, but set_obj on a missing index is the identity *)
    constructor; cbn [set_obj table objs cachek]; try apply I1.
    intros s i Hin. destruct (inv_objs e1 I1 s i Hin) as (y & Hy & Hys).
    exists y. split; [|exact Hys]. rewrite nth_oset_other; [exact Hy|]. intro E. subst i. congruence.
Qed.

Lemma inv_close_all : forall entries e, Inv e -> Inv (fst (close_all e entries)).
Proof.
  induction entries as [|[sid oid] r IH]; intros e I; [exact I|]. cbn [close_all].
  pose proof (inv_close_one e sid oid I) as I1. destruct (close_one e sid oid) as [e1 x1]. cbn [fst] in I1.
  specialize (IH e1 I1). destruct (close_all e1 r) as [e2 x2]. exact IH.
Qed.

Lemma inv_alloc e : Inv e -> Inv (snd (alloc e)).
Proof.
  intros [K O C]. unfold alloc. destruct (allocate (sc e)) as [r s']. cbn [snd]. constructor; assumption.
Qed.

Theorem inv_step u e l : Inv e -> Inv (fst (ep_step u e l)).
Proof.
  intro I. destruct l; cbn [ep_step];
    try (pose proof (inv_alloc e I) as Ia; destruct (alloc e) as [[sid|] e1]; cbn [snd fst] in *;
         [try (apply inv_register; [exact Ia|reflexivity]); try (apply inv_finish; exact Ia)|exact Ia]);
    try (unfold with_obj; destruct (nth_error (objs e) oid) as [ob|] eqn:Ho; [|exact I]);
    try exact I.
  - destruct positive; cbn [fst]; inv_solve Ho.
  - destruct (o_kind ob); cbn [fst]; try exact I; [eapply inv_set_obj; [exact I|exact Ho|reflexivity]|].
    set (o1 := upd_sub ob (o_has_pub ob) has_sub).
    assert (Inv (set_obj e oid o1)) as I1 by (eapply inv_set_obj; [exact I|exact Ho|reflexivity]).
    assert (nth_error (objs (set_obj e oid o1)) oid = Some o1) as H1
      by (cbn; apply nth_oset_same; apply nth_error_Some; congruence).
    destruct has_sub, (o_has_pub ob); cbn [fst];
      repeat first [exact I1 | apply inv_chan_mark; [|first [exact H1 | (rewrite chan_mark_nth; [reflexivity|cbn; rewrite oset_length; apply nth_error_Some; congruence])]]].
  - destruct (o_kind ob); cbn [fst]; inv_solve Ho.
  - destruct (o_fut ob); cbn [fst]; inv_solve Ho.
  - destruct (o_kind ob), (o_fut ob); cbn [fst]; inv_solve Ho.
  - destruct (o_kind ob); cbn [fst]; try exact I; destruct complete; cbn [fst]; inv_solve Ho.
  - destruct (o_kind ob); cbn [fst]; inv_solve Ho.
  - destruct (o_kind ob); cbn [fst]; inv_solve Ho.
  - destruct (o_kind ob); cbn [fst]; try exact I.
    + destruct (o_fut ob); cbn [fst]; try exact I. destruct (o_responded ob); cbn [fst]; inv_solve Ho.
    + destruct r; cbn [fst]; inv_solve Ho.
  - apply inv_recv_frame. exact I.
  - apply inv_close_all. exact I.
Qed.

(* ---------- reachable states ---------- *)
Definition step_state (e : ep) (lu : label * bool) : ep := fst (ep_step (snd lu) e (fst lu)).
Definition reach (first : N) (ls : list (label * bool)) : ep := fold_left step_state ls (ep_init first).

Theorem reach_inv first ls : Inv (reach first ls).
Proof.
  unfold reach. generalize (inv_init first). generalize (ep_init first).
  induction ls as [|[l u] r IH]; intros e I; [exact I|]. cbn [fold_left]. apply IH. apply inv_step. exact I.
Qed.

(* ---------- C12: service continues — a request on a free id is served whatever happened before ---------- *)
Theorem fresh_request_served e sid ign md d :
  tget (table e) sid = None -> cache_get (cachek e) sid = None -> sid <> 0 ->
  recv_frame e (FRequestResponse sid ign false md d) OFuture true =
    (register_obj e sid (mk_obj KRRResp sid), [XHandler HResponse md d]).
Proof.
  intros Ht Hc Hs. unfold recv_frame. change (stray_fragment e (FRequestResponse sid ign false md d)) with false.
  change (is_fragmentable (FRequestResponse sid ign false md d)) with true. cbv iota.
  unfold cache_append. cbn [ffollows fsid]. rewrite Hc.
  assert ({| sc := sc e; table := table e; objs := objs e; cachek := cachek e |} = e) as -> by (destruct e; reflexivity).
  unfold recv_dispatch. cbn [fsid default_outcome]. change (is_request_type (FRequestResponse sid ign false md d)) with true.
  rewrite orb_true_r. rewrite Ht. change CONNECTION_STREAM_ID with 0. destruct (N.eqb_spec sid 0); [congruence|]. reflexivity.
Qed.

(* ---------- C10 / C09: every ending removes the stream's state ---------- *)
Definition gone (e : ep) (sid : N) : Prop := tget (table e) sid = None /\ cache_get (cachek e) sid = None.

Lemma finish_gone e sid : gone (finish e sid) sid.
Proof. split; [rewrite finish_table_get|rewrite finish_cache_get]; rewrite N.eqb_refl; reflexivity. Qed.

Lemma chan_mark_gone e oid o s r : o_sent (upd_marks o s r) && o_recv (upd_marks o s r) = true -> gone (chan_mark e oid o s r) (o_sid o).
Proof. intro H. unfold chan_mark. rewrite H. apply finish_gone. Qed.

(* request-response, requester: response, error, or the cancel callback *)
Theorem end_rr_requester e oid o f u : o_kind o = KRRReq ->
  (match f with FPayload _ _ _ _ _ _ _ => True | FError _ _ _ _ => u = true \/ o_fut o <> FPending | _ => False end) ->
  gone (fst (fst (handler_frame e oid o f u))) (o_sid o).
Proof.
  intros Hk Hf. unfold handler_frame. rewrite Hk. destruct f; try (exfalso; exact Hf).
  - destruct (o_fut o); cbn [fst]; apply finish_gone.
  - destruct (o_fut o) eqn:Ef; cbn [fst]; try apply finish_gone.
    destruct Hf as [Hu|Hp]; [rewrite Hu; apply finish_gone|congruence].
Qed.

Theorem end_rr_cancel e oid o u r : nth_error (objs e) oid = Some o -> o_kind o = KRRReq -> o_fut o = FCancelled ->
  o_responded o = false ->
  ep_step u e (LFutCb oid r) = (finish e (o_sid o), [XEnq (f_cancel (o_sid o))]).
Proof. intros Ho Hk Hf Hr. cbn [ep_step]. unfold with_obj. rewrite Ho, Hk, Hf, Hr. reflexivity. Qed.

(* request-response, responder: the application's future completes (any way), or CANCEL arrives *)
Theorem end_rr_responder e oid o u r : nth_error (objs e) oid = Some o -> o_kind o = KRRResp ->
  gone (fst (ep_step u e (LFutCb oid r))) (o_sid o) /\
  snd (ep_step u e (LFutCb oid r)) =
    match r with ARResult md d => [XEnq (f_payload (o_sid o) md d true true)]
               | ARError => [XEnq (f_error (o_sid o) EC_APPLICATION_ERROR [])] | ARCancel => [] end.
Proof.
  intros Ho Hk. cbn [ep_step]. unfold with_obj. rewrite Ho, Hk. destruct r; cbn [fst snd]; split; try reflexivity; apply finish_gone.
Qed.

Theorem cancel_rr_responder e oid o u : o_kind o = KRRResp ->
  let '(e', effs, raised) := handler_frame e oid o (FCancel (o_sid o) false) u in
  gone e' (o_sid o) /\ raised = false /\ effs = (match o_fut o with FPending => [XAppFutCancel oid] | _ => [] end).
Proof. intro Hk. unfold handler_frame. rewrite Hk. destruct (o_fut o); repeat split; apply finish_gone. Qed.

(* request-stream, requester *)
Theorem end_rs_requester e oid o sid ign fo nx md d u : o_kind o = KRSReq -> o_has_sub o = true ->
  let '(e', effs, raised) := handler_frame e oid o (FPayload sid ign fo true nx md d) u in
  gone e' (o_sid o) /\ raised = false /\ effs = [XCb oid (if nx then SNext md d true else SComplete)].
Proof.
  intros Hk Hs. unfold handler_frame. rewrite Hk, Hs. rewrite orb_true_r. cbn [negb andb].
  destruct nx; repeat split; apply finish_gone.
Qed.

Theorem error_rs_requester e oid o sid ign code d : o_kind o = KRSReq -> o_has_sub o = true ->
  let '(e', effs, raised) := handler_frame e oid o (FError sid ign code d) true in
  gone e' (o_sid o) /\ raised = false /\ effs = [XCb oid SError].
Proof. intros Hk Hs. unfold handler_frame. rewrite Hk, Hs. cbn. repeat split; apply finish_gone. Qed.

Theorem cancel_rs_requester u e oid o : nth_error (objs e) oid = Some o -> o_kind o = KRSReq ->
  ep_step u e (LCancel oid) = (finish e (o_sid o), [XEnq (f_cancel (o_sid o))]).
Proof. intros Ho Hk. cbn [ep_step]. unfold with_obj. rewrite Ho, Hk. reflexivity. Qed.

(* request-stream, responder: the publisher's terminal signals, or CANCEL from the peer (publisher cancelled) *)
Theorem end_rs_responder u e oid o : nth_error (objs e) oid = Some o -> o_kind o = KRSResp ->
  (forall md d, ep_step u e (LPubNext oid md d true) = (finish e (o_sid o), [XEnq (f_payload (o_sid o) md d true true)])) /\
  ep_step u e (LPubComplete oid) = (finish e (o_sid o), [XEnq (f_payload (o_sid o) [] [] true false)]) /\
  ep_step u e (LPubError oid) = (finish e (o_sid o), [XEnq (f_error (o_sid o) EC_APPLICATION_ERROR [])]) /\
  handler_frame e oid o (FCancel (o_sid o) false) u = (finish e (o_sid o), [XPub oid PCancelOp], false).
Proof.
  intros Ho Hk. cbn [ep_step]. unfold with_obj, handler_frame. rewrite Ho, Hk. repeat split; reflexivity.
Qed.

(* channel: the two directions close in either order; the entry goes when both are closed *)
Theorem end_channel_both e oid o s r : is_chan (o_kind o) = true ->
  (o_sent o || s) && (o_recv o || r) = true -> gone (chan_mark e oid o s r) (o_sid o).
Proof. intros _ H. apply chan_mark_gone. exact H. Qed.

Theorem channel_half_closed_stays e oid o s r : (o_sent o || s) && (o_recv o || r) = false ->
  table (chan_mark e oid o s r) = table e.
Proof. intro H. unfold chan_mark. cbn [o_sent o_recv upd_marks]. rewrite H. reflexivity. Qed.

(* F16 (known finding KF-C10-channel-abnormal-end): a peer ERROR closes only the receiving direction of a channel:
   with a local publisher that has not completed the entry survives the termination of the interaction *)
Definition f16_obj : hobj := upd_sub (mk_obj KChanReq 1) true true.
Definition f16_ep : ep := register_obj (ep_init 1) 1 f16_obj.
Lemma channel_error_leaves_entry :
  tget (table (fst (recv_frame f16_ep (FError 1 false EC_APPLICATION_ERROR []) ONone true))) 1 = Some 0%nat.
Proof. vm_compute. reflexivity. Qed.

(* ... and a requester's cancel() likewise closes only the receiving direction *)
Lemma channel_cancel_leaves_entry :
  tget (table (fst (ep_step true f16_ep (LCancel 0)))) 1 = Some 0%nat.
Proof. vm_compute. reflexivity. Qed.

(* ---------- C11: the close sweep ---------- *)
Lemma handler_frame_keys e oid o f u k :
  tget (table (fst (fst (handler_frame e oid o f u)))) k <> None -> tget (table e) k <> None.
Proof.
  unfold handler_frame.
  assert (forall e0 s, tget (table (finish e0 s)) k <> None -> tget (table e0) k <> None) as Hf.
  { intros e0 s. rewrite finish_table_get. destruct (s =? k); [congruence|auto]. }
  assert (forall e0 o0 s r, tget (table (chan_mark e0 oid o0 s r)) k <> None -> tget (table e0) k <> None) as Hc.
  { intros e0 o0 s r. unfold chan_mark. destruct (_ && _); [intro H; apply Hf in H; exact H|auto]. }
  destruct (o_kind o); destruct f; cbn [fst]; auto;
    repeat match goal with
           | |- context [match o_fut o with _ => _ end] => destruct (o_fut o)
           | |- context [if ?b then _ else _] => destruct b
           end; cbn [fst]; auto;
    try (intro H; apply Hf in H; exact H); try (intro H; apply Hc in H; exact H).
Qed.

Lemma close_one_keys e sid oid k :
  tget (table (fst (close_one e sid oid))) k <> None -> tget (table e) k <> None /\ k <> sid.
Proof.
  unfold close_one.
  assert (forall e0, tget (table (finish_table e0 sid)) k <> None -> tget (table e0) k <> None /\ k <> sid) as Hft.
  { intros e0. cbn [finish_table table]. rewrite tget_tremove. destruct (N.eqb_spec sid k); [congruence|]. split; [assumption|congruence]. }
  destruct (nth_error (objs e) oid) as [ob|]; [|apply Hft].
  set (r1 := if is_requester (o_kind ob) then _ else _).
  assert (forall k0, tget (table (fst r1)) k0 <> None -> tget (table e) k0 <> None) as H1.
  { intro k0. unfold r1. destruct (is_requester (o_kind ob)); [|auto].
    pose proof (handler_frame_keys e oid ob (f_error sid EC_CONNECTION_ERROR []) true k0) as H.
    destruct (handler_frame e oid ob _ true) as [[e' effs] r]. exact H. }
  destruct r1 as [e1 eff1]. cbn [fst] in H1.
  destruct (match nth_error (objs e1) oid with Some x => x | None => ob end) as [kd sd ft rs st rc hp hs nn] eqn:Eo.
  cbn [o_kind o_fut o_has_pub].
  destruct kd; cbn [fst]; try (intro H; apply Hft in H; destruct H as [A B]; split; [apply H1; exact A|exact B]).
  destruct ft; cbn [fst]; intro H; apply Hft in H; destruct H as [A B]; (split; [apply H1; exact A|exact B]).
Qed.

Lemma close_all_keys : forall entries e k,
  tget (table (fst (close_all e entries))) k <> None -> tget (table e) k <> None /\ ~ In k (map fst entries).
Proof.
  induction entries as [|[sid oid] r IH]; intros e k H; cbn [close_all] in H; [split; [exact H|intros []]|].
  pose proof (close_one_keys e sid oid k) as H1. destruct (close_one e sid oid) as [e1 x1]. cbn [fst] in H1.
  specialize (IH e1 k). destruct (close_all e1 r) as [e2 x2]. cbn [fst] in *. destruct (IH H) as [A B].
  destruct (H1 A) as [C D]. split; [exact C|]. cbn [map fst]. intros [E|Hin]; [congruence|exact (B Hin)].
Qed.

Theorem close_empties u e : Inv e -> table (fst (ep_step u e LClose)) = [].
Proof.
  intro I. cbn [ep_step]. destruct (table (fst (close_all e (rev (table e))))) as [|[k v] r] eqn:Et; [reflexivity|]. exfalso.
  destruct (close_all_keys (rev (table e)) e k) as [A B].
  - rewrite Et. cbn. rewrite N.eqb_refl. discriminate.
  - apply B. rewrite map_rev. apply in_rev. rewrite rev_involutive.
    destruct (tget (table e) k) as [i|] eqn:Ek; [|congruence]. apply tget_In in Ek; [|apply I].
    apply in_map_iff. exists (k, i). split; [reflexivity|exact Ek].
Qed.

(* what the sweep does to one entry, by kind of interaction *)
Theorem close_one_effects e sid oid ob : nth_error (objs e) oid = Some ob -> o_sid ob = sid ->
  snd (close_one e sid oid) =
  match o_kind ob with
  | KRRReq => match o_fut ob with FPending => [XFut oid false [] []] | _ => [] end                 (* pending request failed, once *)
  | KRRResp => match o_fut ob with FPending => [XAppFutCancel oid] | _ => [] end             (* handler future cancelled *)
  | KRSReq => if o_has_sub ob then [XCb oid SError] else []                                   (* subscriber failed *)
  | KRSResp => [XPub oid PCancelOp]                                                           (* publisher cancelled *)
  | KChanReq => (if o_recv ob then [] else if o_has_sub ob then [XCb oid SError] else [])
                ++ (if o_has_pub ob then [XPub oid PCancelOp] else [])
  | KChanResp => if o_has_pub ob then [XPub oid PCancelOp] else []
  end.
Proof.
  intros Ho Hs. unfold close_one. rewrite Ho.
  assert (oid < length (objs e))%nat as Hl by (apply nth_error_Some; congruence).
  destruct ob as [kd sd ft rs st rc hp hs nn]. cbn [o_sid] in Hs. subst sd.
  destruct kd; cbn [is_requester o_kind handler_frame f_error o_fut o_recv o_has_sub o_has_pub o_sid upd_responded upd_fut].
  - (* RRReq *)
    destruct ft; cbn [fst snd];
      rewrite ?finish_objs; cbn [set_obj objs]; rewrite ?nth_oset_same by exact Hl; cbn [o_kind upd_fut upd_responded app]; reflexivity.
  - rewrite Ho. cbn [o_kind o_fut]. destruct ft; reflexivity.
  - destruct hs; cbn [negb fst snd]; rewrite ?finish_objs; rewrite Ho; cbn [o_kind app]; reflexivity.
  - rewrite Ho. reflexivity.
  - destruct rc; cbn [fst snd].
    + rewrite chan_mark_nth by exact Hl. cbn [o_kind upd_marks o_has_pub app]. reflexivity.
    + destruct hs; cbn [negb fst snd].
      * rewrite chan_mark_nth by exact Hl. cbn [o_kind upd_marks o_has_pub]. reflexivity.
      * rewrite Ho. cbn [o_kind o_has_pub app]. reflexivity.
  - rewrite Ho. cbn [o_kind o_has_pub app]. reflexivity.
Qed.

Lemma handler_frame_other_objs e oid o f u j : j <> oid ->
  nth_error (objs (fst (fst (handler_frame e oid o f u)))) j = nth_error (objs e) j.
Proof.
  intro Hj. pose proof (handler_frame_local e oid o f u (o_sid o + 1)) as H.
  destruct (handler_frame e oid o f u) as [[e' effs] r]. cbn [fst].
  assert (o_sid o + 1 <> o_sid o) as Hne by lia. destruct (H Hne) as (_ & _ & C & _). apply C. exact Hj.
Qed.

(* the sweep of one entry leaves every other object alone *)
Theorem close_one_other_objs e sid oid j : j <> oid ->
  nth_error (objs (fst (close_one e sid oid))) j = nth_error (objs e) j.
Proof.
  intro Hj. unfold close_one. destruct (nth_error (objs e) oid) as [ob|]; [|reflexivity].
  set (r1 := if is_requester (o_kind ob) then _ else _).
  assert (nth_error (objs (fst r1)) j = nth_error (objs e) j) as H1.
  { unfold r1. destruct (is_requester (o_kind ob)); [|reflexivity].
    pose proof (handler_frame_other_objs e oid ob (f_error sid EC_CONNECTION_ERROR []) true j Hj) as H.
    destruct (handler_frame e oid ob _ true) as [[e' effs] r]. exact H. }
  destruct r1 as [e1 eff1]. cbn [fst] in H1.
  destruct (match nth_error (objs e1) oid with Some x => x | None => ob end) as [kd sd ft rs st rc hp hs nn].
  cbn [o_kind o_fut o_has_pub]. destruct kd; cbn [fst finish_table objs]; try exact H1.
  destruct ft; cbn [fst finish_table objs set_obj]; try exact H1. rewrite nth_oset_other by congruence. exact H1.
Qed.

(* ---------- C12: raising handlers and frames for unknown streams ---------- *)
Theorem raising_handler_contained e sid ign md d :
  tget (table e) sid = None -> cache_get (cachek e) sid = None ->
  recv_frame e (FRequestResponse sid ign false md d) ORaise true =
    (e, [XHandler HResponse md d; XEnq (f_error sid EC_APPLICATION_ERROR [])]).
Proof.
  intros Ht Hc. unfold recv_frame. change (stray_fragment e (FRequestResponse sid ign false md d)) with false.
  change (is_fragmentable (FRequestResponse sid ign false md d)) with true. cbv iota.
  unfold cache_append. cbn [ffollows fsid]. rewrite Hc.
  assert ({| sc := sc e; table := table e; objs := objs e; cachek := cachek e |} = e) as -> by (destruct e; reflexivity).
  unfold recv_dispatch. cbn [fsid default_outcome]. change (is_request_type (FRequestResponse sid ign false md d)) with true.
  rewrite orb_true_r. rewrite Ht. reflexivity.
Qed.

Theorem unknown_stream_dropped e f o u : is_fragmentable f = false -> is_request_type f = false ->
  fsid f <> CONNECTION_STREAM_ID -> tget (table e) (fsid f) = None -> recv_frame e f o u = (e, []).
Proof.
  intros Hf Hr Hs Ht. unfold recv_frame.
  assert (stray_fragment e f = false) as -> by (destruct f; try discriminate Hf; reflexivity).
  rewrite Hf. unfold recv_dispatch. rewrite Hr, orb_false_r.
  destruct (N.eqb_spec (fsid f) CONNECTION_STREAM_ID); [congruence|]. rewrite Ht. reflexivity.
Qed.

Theorem fnf_leaves_nothing u e md d sid e1 : alloc e = (Some sid, e1) -> gone (fst (ep_step u e (LFnf md d))) sid.
Proof. intro H. cbn [ep_step]. rewrite H. cbn [fst]. apply finish_gone. Qed.

Theorem end_rr_cancel_gone e oid o u r : nth_error (objs e) oid = Some o -> o_kind o = KRRReq -> o_fut o = FCancelled ->
  o_responded o = false -> gone (fst (ep_step u e (LFutCb oid r))) (o_sid o).
Proof. intros Ho Hk Hf Hr. rewrite (end_rr_cancel e oid o u r Ho Hk Hf Hr). apply finish_gone. Qed.

Theorem cancel_rs_requester_gone u e oid o : nth_error (objs e) oid = Some o -> o_kind o = KRSReq ->
  gone (fst (ep_step u e (LCancel oid))) (o_sid o).
Proof. intros Ho Hk. rewrite (cancel_rs_requester u e oid o Ho Hk). apply finish_gone. Qed.

(* fragments still in flight for a stream that is gone are not buffered (fix: "fragments of unknown streams") *)
Theorem gone_fragment_dropped e sid ign co nx md d o u : gone e sid ->
  recv_frame e (FPayload sid ign true co nx md d) o u = (e, []).
Proof. intros [Ht Hc]. unfold recv_frame, stray_fragment. rewrite Ht, Hc. reflexivity. Qed.
