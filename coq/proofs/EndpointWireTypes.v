From Coq Require Import Arith NArith List Bool Lia Init.Byte.
From RSV Require Import gen.GenConst lib.Bytes model.Frame model.Fragmenter model.StreamIds model.Endpoint
     proofs.SendQueueProofs proofs.EndpointProofs proofs.EndpointWire.
Import ListNotations.
Open Scope N_scope.

(* which application-side sections exist for which kind of handler object (what the API hands out: an awaitable for
   request-response; a Publisher/Subscription for streams and channels; the responder's future / publisher) *)
Definition label_fits (l : label) (k : hkind) : bool :=
  match l, k with
  | LInitialN _ _ _, (KRSReq | KChanReq) => true
  | LSubscribe _ _ _ _, (KRSReq | KChanReq) => true
  | LRequestN _ _, (KRSReq | KChanReq | KChanResp) => true
  | LCancel _, (KRSReq | KChanReq | KChanResp) => true
  | LFutCancel _, KRRReq => true
  | LFutCb _ _, (KRRReq | KRRResp) => true
  | LAppResolve _ _, KRRResp => true
  | (LPubNext _ _ _ _ | LPubComplete _ | LPubError _), (KRSResp | KChanReq | KChanResp) => true
  | _, _ => false
  end.

(* the frame types each role of each interaction model may emit on its stream *)
Definition kind_allows (k : hkind) (g : frame) : bool :=
  match k, g with
  | KRRReq, (FRequestResponse _ _ _ _ _ | FCancel _ _) => true
  | KRSReq, (FRequestStream _ _ _ _ _ _ | FRequestN _ _ _ | FCancel _ _) => true
  | KChanReq, (FRequestChannel _ _ _ _ _ _ _ | FRequestN _ _ _ | FCancel _ _ | FPayload _ _ _ _ _ _ _ | FError _ _ _ _) => true
  | KRRResp, (FPayload _ _ _ _ _ _ _ | FError _ _ _ _) => true
  | KRSResp, (FPayload _ _ _ _ _ _ _ | FError _ _ _ _) => true
  | KChanResp, (FPayload _ _ _ _ _ _ _ | FError _ _ _ _ | FRequestN _ _ _ | FCancel _ _) => true
  | _, _ => false
  end.

(* every application call, done-callback and publisher signal on an object emits only frame types its role allows *)
Theorem local_action_types u e l oid o : label_oid l = Some oid -> nth_error (objs e) oid = Some o ->
  label_fits l (o_kind o) = true ->
  Forall (fun g => kind_allows (o_kind o) g = true) (enqs (snd (ep_step u e l))).
Proof.
  intros Hl Ho Hf. destruct l; try discriminate Hl; injection Hl as ->; cbn [ep_step]; unfold with_obj; rewrite Ho;
    destruct (o_kind o) eqn:Ek; try discriminate Hf; cbn [snd enqs flat_map app]; repeat constructor.
  all: repeat match goal with
              | |- context [if ?b then _ else _] => destruct b
              | |- context [match o_fut ?x with _ => _ end] => destruct (o_fut x)
              | |- context [match ?r with ARResult _ _ => _ | _ => _ end] => destruct r
              end; cbn [fst snd enqs flat_map app]; repeat constructor.
Qed.

(* the frame that opens a stream is the request frame of the interaction model, on the freshly allocated id *)
Theorem request_opens_stream u e md d sid e1 : alloc e = (Some sid, e1) ->
  enqs (snd (ep_step u e (LReqResponse md d))) = [FRequestResponse sid false false md d] /\
  enqs (snd (ep_step u e (LFnf md d))) = [FRequestFnf sid false false md d] /\
  enqs (snd (ep_step u e (LReqStream md d))) = [] /\ (forall hp, enqs (snd (ep_step u e (LReqChannel md d hp))) = []).
Proof. intro H. cbn [ep_step]. rewrite H. repeat split; reflexivity. Qed.
