From Coq Require Import ZArith NArith List Bool Lia ZifyBool ZifyNat ZifyN Init.Byte.
From RSV Require Import lib.Bytes model.Frame model.Parser proofs.FrameProofs.
Import ListNotations.
Open Scope N_scope.
Ltac Zify.zify_post_hook ::= Z.to_euclidean_division_equations.

Section P.
  Variable decode : bytes -> dres.
  Notation drain := (drain decode).
  Notation drain_all := (drain_all decode).
  Notation feed_all := (feed_all decode).

  Lemma split_frame_some buf body rest : split_frame buf = Some (body, rest) ->
    (length rest + 3 <= length buf)%nat /\ buf = takeN buf 3 ++ body ++ rest /\
    3 <= lenN buf /\ lenN body = dec (takeN buf 3).
  Proof.
    unfold split_frame. destruct (N.ltb_spec (lenN buf) 3) as [|H3]; [discriminate|].
    destruct (N.ltb_spec (lenN buf) (dec (takeN buf 3) + 3)) as [|Hl]; [discriminate|].
    intro E. injection E as <- <-. unfold lenN in *. split; [|split; [|split]].
    - rewrite !dropN_length. lia.
    - rewrite takeN_dropN. rewrite takeN_dropN. reflexivity.
    - exact H3.
    - rewrite takeN_length, dropN_length. lia.
  Qed.

  (* enough fuel: any two fuels >= length give the same result *)
  Lemma drain_fuel2 : forall f1 f2 buf, (length buf <= f1)%nat -> (length buf <= f2)%nat ->
    drain f1 buf = drain f2 buf.
  Proof.
    induction f1 as [|k IH]; intros f2 buf H1 H2.
    - destruct buf; [|cbn in H1; lia]. destruct f2; reflexivity.
    - destruct f2 as [|k2].
      + destruct buf; [|cbn in H2; lia]. reflexivity.
      + cbn [Parser.drain]. destruct (split_frame buf) as [[body rest]|] eqn:Es; [|reflexivity].
        destruct (split_frame_some _ _ _ Es) as (Hr & _).
        rewrite (IH k2 rest) by lia. reflexivity.
  Qed.

  Lemma drain_fuel fuel buf : (length buf <= fuel)%nat -> drain fuel buf = drain_all buf.
  Proof. intro H. unfold Parser.drain_all. apply drain_fuel2; lia. Qed.

  Lemma drain_all_unfold buf :
    drain_all buf = match split_frame buf with
                    | None => ([], buf)
                    | Some (body, rest) => let (out, r) := drain_all rest in (items_of (decode body) ++ out, r)
                    end.
  Proof.
    unfold Parser.drain_all at 1. destruct (length buf) as [|n] eqn:El.
    - destruct buf; [|discriminate]. reflexivity.
    - cbn [Parser.drain]. destruct (split_frame buf) as [[body rest]|] eqn:Es; [|reflexivity].
      destruct (split_frame_some _ _ _ Es) as (Hr & _). rewrite drain_fuel by lia. reflexivity.
  Qed.

  (* a complete first frame stays the first frame when more bytes follow *)
  Lemma split_frame_app a b body rest : split_frame a = Some (body, rest) ->
    split_frame (a ++ b) = Some (body, rest ++ b).
  Proof.
    unfold split_frame. destruct (N.ltb_spec (lenN a) 3) as [|H3]; [discriminate|].
    destruct (N.ltb_spec (lenN a) (dec (takeN a 3) + 3)) as [|Hl]; [discriminate|].
    intro E. injection E as <- <-.
    rewrite lenN_app. destruct (N.ltb_spec (lenN a + lenN b) 3) as [|_]; [lia|].
    rewrite (takeN_app_le a b 3) by exact H3.
    destruct (N.ltb_spec (lenN a + lenN b) (dec (takeN a 3) + 3)) as [|_]; [lia|].
    rewrite (dropN_app_le a b 3) by exact H3.
    assert (dec (takeN a 3) <= lenN (dropN a 3)) as Hn.
    { unfold lenN in *. rewrite dropN_length. lia. }
    rewrite takeN_app_le by exact Hn. rewrite dropN_app_le by exact Hn. reflexivity.
  Qed.

  (* the compositional law behind chunking independence *)
  Lemma drain_app : forall n a b, (length a <= n)%nat ->
    drain_all (a ++ b) =
      let (o1, r) := drain_all a in let (o2, r') := drain_all (r ++ b) in (o1 ++ o2, r').
  Proof.
    induction n as [|n IH]; intros a b Hle.
    - destruct a; [|cbn in Hle; lia]. rewrite (drain_all_unfold []).
      change (split_frame []) with (@None (bytes * bytes)). cbv iota. cbn [app].
      destruct (drain_all b). reflexivity.
    - rewrite (drain_all_unfold a).
      destruct (split_frame a) as [[body rest]|] eqn:Es.
      + destruct (split_frame_some _ _ _ Es) as (Hr & _).
        rewrite (drain_all_unfold (a ++ b)), (split_frame_app _ b _ _ Es).
        rewrite (IH rest b) by lia.
        destruct (drain_all rest) as [o1 r]. destruct (drain_all (r ++ b)) as [o2 r'].
        rewrite app_assoc. reflexivity.
      + cbn [app]. destruct (drain_all (a ++ b)). reflexivity.
  Qed.

  (* the residual buffer never holds a complete frame *)
  Lemma residual_incomplete : forall n buf, (length buf <= n)%nat -> split_frame (snd (drain_all buf)) = None.
  Proof.
    induction n as [|n IH]; intros buf Hle; rewrite drain_all_unfold.
    - destruct buf; [|cbn in Hle; lia]. reflexivity.
    - destruct (split_frame buf) as [[body rest]|] eqn:Es; [|exact Es].
      destruct (split_frame_some _ _ _ Es) as (Hr & _).
      specialize (IH rest). destruct (drain_all rest) as [o r]. cbn [snd] in *. apply IH. lia.
  Qed.

  Lemma drain_incomplete st : split_frame st = None -> drain_all st = ([], st).
  Proof. intro H. rewrite drain_all_unfold, H. reflexivity. Qed.

  Lemma feed_all_is_drain : forall cs st, split_frame st = None ->
    feed_all st cs = drain_all (st ++ concat cs).
  Proof.
    induction cs as [|c cs IH]; intros st Hst; cbn [Parser.feed_all concat].
    - rewrite app_nil_r. rewrite drain_incomplete by exact Hst. reflexivity.
    - unfold Parser.feed. rewrite app_assoc.
      rewrite (drain_app (length (st ++ c)) (st ++ c) (concat cs)) by lia.
      pose proof (residual_incomplete (length (st ++ c)) (st ++ c) (Nat.le_refl _)) as Hres.
      destruct (drain_all (st ++ c)) as [o1 st1]. cbn [snd] in Hres.
      rewrite (IH st1 Hres). destruct (drain_all (st1 ++ concat cs)). reflexivity.
  Qed.

  (* C04: the decoded items and the residual buffer depend only on the bytes received *)
  Theorem chunking_independent cs cs' :
    concat cs = concat cs' -> feed_all [] cs = feed_all [] cs'.
  Proof.
    intro H. rewrite !feed_all_is_drain by reflexivity. cbn [app]. rewrite H. reflexivity.
  Qed.

  Theorem feed_all_spec cs : feed_all [] cs = drain_all (concat cs).
  Proof. rewrite feed_all_is_drain by reflexivity. reflexivity. Qed.

  (* exactness: a stream of delimited frames yields exactly their decodings, in order *)
  Lemma split_frame_delimit body rest : lenN body < 2 ^ 24 ->
    split_frame (delimit body ++ rest) = Some (body, rest).
  Proof.
    intro Hl. unfold split_frame, delimit. rewrite <- app_assoc.
    assert (lenN (be 3 (lenN body) ++ body ++ rest) = 3 + lenN body + lenN rest) as HL.
    { rewrite !lenN_app, lenN_be. change (N.of_nat 3) with 3. lia. }
    rewrite HL. destruct (N.ltb_spec (3 + lenN body + lenN rest) 3) as [|_]; [lia|].
    rewrite (takeN_app_len (be 3 (lenN body))) by (rewrite lenN_be; reflexivity).
    rewrite dec_be_small by (change (256 ^ N.of_nat 3) with (2 ^ 24); exact Hl).
    destruct (N.ltb_spec (3 + lenN body + lenN rest) (lenN body + 3)) as [|_]; [lia|].
    rewrite (dropN_app_len (be 3 (lenN body))) by (rewrite lenN_be; reflexivity).
    rewrite takeN_app_exact, dropN_app_exact. reflexivity.
  Qed.

  Theorem drain_delimited : forall bodies tail, Forall (fun b => lenN b < 2 ^ 24) bodies ->
    drain_all (concat (map delimit bodies) ++ tail) =
      let (o, r) := drain_all tail in (concat (map (fun b => items_of (decode b)) bodies) ++ o, r).
  Proof.
    induction bodies as [|b bs IH]; intros tail HF; cbn [map concat app].
    - destruct (drain_all tail). reflexivity.
    - inversion HF as [|? ? Hb HF']; subst. rewrite <- app_assoc.
      rewrite drain_all_unfold, split_frame_delimit by exact Hb.
      rewrite IH by exact HF'. destruct (drain_all tail) as [o r]. rewrite <- app_assoc. reflexivity.
  Qed.

  (* prefixes: what has been decoded from a prefix of the stream is a prefix of what the whole stream decodes to *)
  Theorem prefix_outputs a b : exists o2, fst (drain_all (a ++ b)) = fst (drain_all a) ++ o2.
  Proof.
    rewrite (drain_app (length a) a b) by lia.
    destruct (drain_all a) as [o1 r]. destruct (drain_all (r ++ b)) as [o2 r']. exists o2. reflexivity.
  Qed.

  (* termination: the loop needs at most length/3 + 1 iterations; stated as: fuel = length suffices
     and the residual is a suffix no longer than the input *)
  Theorem drain_residual_short : forall n buf, (length buf <= n)%nat -> (length (snd (drain_all buf)) <= length buf)%nat.
  Proof.
    induction n as [|n IH]; intros buf Hle; rewrite drain_all_unfold.
    - destruct buf; [|cbn in Hle; lia]. cbn. lia.
    - destruct (split_frame buf) as [[body rest]|] eqn:Es; [|cbn; lia].
      destruct (split_frame_some _ _ _ Es) as (Hr & _).
      specialize (IH rest). destruct (drain_all rest) as [o r]. cbn [snd] in *. assert (length rest <= n)%nat as Hn by lia. specialize (IH Hn). lia.
  Qed.

  (* ---- message framing ---- *)
  (* with the guard (current code): a non-empty message on an empty buffer yields exactly its frame *)
  Theorem msg_nonempty data : data <> [] ->
    forall fuel, (2 <= fuel)%nat -> msg_feed decode true fuel [] data = Some (items_of (decode data), []).
  Proof.
    intros Hne fuel Hf. unfold msg_feed. cbn [app].
    destruct fuel as [|[|k]]; try lia. cbn [msg_loop].
    assert (0 < lenN data) as Hpos by (destruct data; [congruence|rewrite lenN_cons; lia]).
    destruct (N.eqb_spec (lenN data) 0) as [E|_]; [lia|]. cbn [andb].
    destruct (N.ltb_spec (lenN data) (lenN data)) as [|_]; [lia|].
    rewrite (dropN_all data (lenN data)) by lia. rewrite (takeN_all data (lenN data)) by lia.
    change (lenN [] =? 0) with true. cbn [andb]. rewrite app_nil_r. reflexivity.
  Qed.

  (* an empty message terminates and yields nothing *)
  Theorem msg_empty_guarded fuel : (1 <= fuel)%nat -> msg_feed decode true fuel [] [] = Some ([], []).
  Proof. intro Hf. destruct fuel; [lia|]. reflexivity. Qed.

  (* F3 (fixed in the repository by the `total > 0` conjunct): without the guard the loop never ends *)
  Theorem msg_empty_unguarded_diverges : forall fuel, msg_feed decode false fuel [] [] = None.
  Proof.
    unfold msg_feed. cbn [app]. induction fuel as [|k IH]; [reflexivity|].
    cbn [msg_loop andb]. change (lenN [] <? lenN []) with false. cbv iota.
    change (dropN [] (lenN [])) with (@nil byte). rewrite IH. reflexivity.
  Qed.
End P.

Lemma drain_terminates : forall decode fuel buf, (length buf <= fuel)%nat ->
  drain decode fuel buf = drain_all decode buf /\ split_frame (snd (drain_all decode buf)) = None.
Proof.
  intros decode fuel buf H. split; [apply drain_fuel; exact H|apply (residual_incomplete decode (length buf)); apply le_n].
Qed.

Lemma valid_frames bk fs : Forall (fun f => wf f = true /\ lenN (encode f) < 2 ^ 24) fs ->
  drain_all (decode bk) (concat (map (fun f => delimit (encode f)) fs)) = (map (fun f => IFrame (norm f)) fs, []).
Proof.
  induction fs as [|f fs IH]; intro HF.
  - reflexivity.
  - inversion HF as [|? ? [Hw Hl] HF']; subst. cbn [map concat].
    rewrite (drain_all_unfold (decode bk)). rewrite (split_frame_delimit (decode bk)) by exact Hl.
    rewrite IH by exact HF'. rewrite decode_encode by exact Hw. reflexivity.
Qed.
