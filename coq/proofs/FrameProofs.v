From Coq Require Import ZArith NArith List Bool Lia ZifyBool ZifyNat ZifyN Init.Byte Strings.Byte.
From RSV Require Import gen.GenConst lib.Bytes model.Frame.
Import ListNotations.
Open Scope N_scope.
Ltac Zify.zify_post_hook ::= Z.to_euclidean_division_equations.

(* ---------- generated constants: the shapes the codec proofs rely on ---------- *)
Lemma gen_masks : MASK_31_BITS = N.ones 31 /\ MASK_63_BITS = N.ones 63 /\ HEADER_LENGTH = 6.
Proof. repeat split; reflexivity. Qed.

Lemma gen_flag_bits :
  FLAG_IGNORE_BIT = 512 /\ FLAG_METADATA_BIT = 256 /\ FLAG_FOLLOWS_BIT = 128 /\ FLAG_RESUME_BIT = 128 /\
  FLAG_RESPOND_BIT = 128 /\ FLAG_LEASE_BIT = 64 /\ FLAG_COMPLETE_BIT = 64 /\ FLAG_NEXT_BIT = 32.
Proof. repeat split; reflexivity. Qed.

Lemma gen_type_ids_fit_6_bits : forallb (fun t => t <? 64) frame_class_ids = true.
Proof. reflexivity. Qed.

Lemma land_mask31 v : v < 2 ^ 31 -> N.land v MASK_31_BITS = v.
Proof. intro H. destruct gen_masks as (-> & _). rewrite N.land_ones. apply N.mod_small. exact H. Qed.

Lemma land_mask63 v : v < 2 ^ 63 -> N.land v MASK_63_BITS = v.
Proof. intro H. destruct gen_masks as (_ & -> & _). rewrite N.land_ones. apply N.mod_small. exact H. Qed.

(* ---------- finite sweep: the 2-byte type/flags word ---------- *)
Fixpoint rangeN (n : nat) : list N :=
  match n with O => [] | S k => rangeN k ++ [N.of_nat k] end.

Lemma rangeN_In n : forall x, x < N.of_nat n -> In x (rangeN n).
Proof.
  induction n as [|n IH]; intros x Hx; [lia|].
  cbn [rangeN]. apply in_or_app. destruct (N.eq_dec x (N.of_nat n)) as [->|Hne].
  - right. left. reflexivity.
  - left. apply IH. lia.
Qed.

Definition word_ok (ty flags : N) : bool :=
  match hdr_word ty flags with
  | [b4; b5] => let '(ty', fl') := parse_word b4 b5 in (ty' =? ty) && (fl' =? flags)
  | _ => false
  end.

Lemma word_sweep : forallb (fun ty => forallb (fun fl => word_ok ty fl) (rangeN 1024)) (rangeN 64) = true.
Proof. vm_compute. reflexivity. Qed.

Lemma word_roundtrip ty flags : ty < 64 -> flags < 1024 ->
  exists b4 b5, hdr_word ty flags = [b4; b5] /\ parse_word b4 b5 = (ty, flags).
Proof.
  intros Ht Hf. pose proof word_sweep as S.
  rewrite forallb_forall in S. specialize (S ty (rangeN_In 64 ty Ht)).
  rewrite forallb_forall in S. specialize (S flags (rangeN_In 1024 flags Hf)).
  unfold word_ok in S. unfold hdr_word in *.
  eexists. eexists. split; [reflexivity|].
  destruct (parse_word _ _) as [a b]. apply andb_true_iff in S. destruct S as [S1 S2].
  apply N.eqb_eq in S1. apply N.eqb_eq in S2. subst. reflexivity.
Qed.

(* ---------- flags of an encoded frame ---------- *)
Definition bit7 (f : frame) : bool :=
  match f with
  | FSetup _ _ _ _ _ _ _ resume _ _ _ _ => match resume with Some _ => true | None => false end
  | FKeepalive _ _ r _ _ => r
  | FRequestResponse _ _ fo _ _ | FRequestFnf _ _ fo _ _ | FRequestStream _ _ fo _ _ _
  | FRequestChannel _ _ fo _ _ _ _ | FPayload _ _ fo _ _ _ _ => fo
  | _ => false
  end.
Definition bit6 (f : frame) : bool :=
  match f with
  | FSetup _ _ lease _ _ _ _ _ _ _ _ _ => lease
  | FRequestChannel _ _ _ co _ _ _ | FPayload _ _ _ co _ _ _ => co
  | _ => false
  end.
Definition bit5 (f : frame) : bool :=
  match f with FPayload _ _ _ _ nx md d => nx || has_content md d | _ => false end.

Lemma flags_spec f :
  all_flags f < 1024 /\
  flag_set (all_flags f) FLAG_IGNORE_BIT = fign f /\
  flag_set (all_flags f) FLAG_METADATA_BIT = negb (is_nil (fmd f)) /\
  flag_set (all_flags f) FLAG_FOLLOWS_BIT = bit7 f /\
  flag_set (all_flags f) FLAG_COMPLETE_BIT = bit6 f /\
  flag_set (all_flags f) FLAG_NEXT_BIT = bit5 f.
Proof.
  destruct f; unfold all_flags, tflags, bit7, bit6, bit5, has_content; cbn [fign fmd];
    try (destruct resume as [[? ?]|]);
    repeat match goal with |- context [is_nil ?l] => generalize (is_nil l); intro end;
    repeat match goal with b : bool |- _ => destruct b end;
    vm_compute; repeat split; reflexivity.
Qed.

(* ---------- small facts about lengths and slices ---------- *)
Lemma lenN_app (a b : bytes) : lenN (a ++ b) = lenN a + lenN b.
Proof. unfold lenN. rewrite app_length. lia. Qed.
Lemma lenN_be k v : lenN (be k v) = N.of_nat k.
Proof. unfold lenN. rewrite be_length. reflexivity. Qed.
Lemma lenN_nil : lenN [] = 0.
Proof. reflexivity. Qed.
Lemma lenN_cons x (l : bytes) : lenN (x :: l) = 1 + lenN l.
Proof. unfold lenN. cbn [length]. lia. Qed.

Lemma takeN_app_len (a b : bytes) n : lenN a = n -> takeN (a ++ b) n = a.
Proof. intros <-. apply takeN_app_exact. Qed.
Lemma dropN_app_len (a b : bytes) n : lenN a = n -> dropN (a ++ b) n = b.
Proof. intros <-. apply dropN_app_exact. Qed.

Lemma is_nil_false_cons (l : bytes) : is_nil l = false -> l <> [].
Proof. destruct l; [discriminate|discriminate]. Qed.

(* ---------- field parsers on encodings ---------- *)
Lemma parse_md_data_enc flags md d k :
  flag_set flags FLAG_METADATA_BIT = negb (is_nil md) -> lenN md < 2 ^ 24 ->
  parse_md_data flags ((if is_nil md then [] else be 3 (lenN md)) ++ md ++ d) k = BOk (k md d).
Proof.
  intros Hf Hl. unfold parse_md_data. rewrite Hf.
  destruct (is_nil md) eqn:E; cbn [negb].
  - destruct md; [reflexivity|discriminate].
  - rewrite get_be_app by (exact Hl). cbn [bind].
    rewrite takeN_app_exact, dropN_app_exact. reflexivity.
Qed.

Lemma unpack_string_enc s rest k : lenN s < 128 ->
  unpack_string (pack_string s ++ rest) k = k s rest.
Proof.
  intro H. unfold unpack_string, pack_string. cbn [app].
  rewrite to_N_byte_of_N. rewrite N.mod_small by lia.
  destruct (N.leb_spec 128 (lenN s)) as [H'|_]; [lia|].
  rewrite takeN_app_exact, dropN_app_exact. reflexivity.
Qed.

Lemma parse_position_be bk v : v < 2 ^ 63 -> parse_position bk (be 8 v) = Some v.
Proof.
  intro H. assert (v < 256 ^ N.of_nat 8) as H8 by (change (256 ^ N.of_nat 8) with (2 ^ 64); lia).
  destruct bk; unfold parse_position; rewrite be_length; cbn [Nat.eqb Nat.ltb Nat.leb].
  - rewrite dec_be_small by exact H8. rewrite land_mask63 by exact H. reflexivity.
  - rewrite <- (be_length 8 v) at 1. rewrite firstn_all.
    rewrite dec_be_small by exact H8. rewrite land_mask63 by exact H. reflexivity.
Qed.

Lemma parse_sid_be bk sid : sid < 2 ^ 31 -> parse_sid bk (dec (be 4 sid)) = sid.
Proof.
  intro H. rewrite dec_be_small by (change (256 ^ N.of_nat 4) with (2 ^ 32); lia).
  destruct bk; cbn [parse_sid]; [reflexivity|apply land_mask31; exact H].
Qed.

(* decode on header ++ body, with the header word already understood *)
Lemma decode_header bk sid ty flags body : sid < 2 ^ 31 -> ty < 64 -> flags < 1024 ->
  decode bk (mk_header sid ty flags ++ body) =
  if negb (existsb (N.eqb ty) frame_class_ids) then DInvalid
  else match decode_body bk sid ty flags body with
       | BOk f => if to_ignore f then DIgnored else DOk f
       | BRaise => if flag_set flags FLAG_IGNORE_BIT then DIgnored else DInvalid
       | BUnmodelled => DUnmodelled
       end.
Proof.
  intros Hs Ht Hf. destruct (word_roundtrip ty flags Ht Hf) as (b4 & b5 & Hw & Hp).
  unfold mk_header. rewrite Hw.
  assert (exists s0 s1 s2 s3, be 4 sid = [s0; s1; s2; s3]) as (s0 & s1 & s2 & s3 & Hb).
  { cbn [be app]. repeat eexists. }
  pose proof (parse_sid_be bk sid Hs) as Hsid. rewrite Hb in *.
  cbn [app decode]. rewrite Hsid, Hp. reflexivity.
Qed.

(* ---------- the round trip ---------- *)
Ltac wf_split H :=
  repeat match goal with
         | H' : (_ && _) = true |- _ =>
             let H1 := fresh "W" in let H2 := fresh "W" in apply andb_true_iff in H'; destruct H' as [H1 H2]
         end.

Ltac wf_arith :=
  repeat match goal with
         | H : (_ <? _) = true |- _ => apply N.ltb_lt in H
         | H : (_ =? _) = true |- _ => apply N.eqb_eq in H
         end.

Ltac ty_tests :=
  repeat match goal with
         | |- context [N.eqb ?a ?b] =>
             is_const a; is_const b;
             first [change (N.eqb a b) with false | change (N.eqb a b) with true]
         end; cbv iota.

Lemma decode_body_payloadlike bk sid flags body :
  decode_body bk sid FT_PAYLOAD flags body =
    parse_md_data flags body (fun md d => FPayload sid (flag_set flags FLAG_IGNORE_BIT) (flag_set flags FLAG_FOLLOWS_BIT)
                                             (flag_set flags FLAG_COMPLETE_BIT) (flag_set flags FLAG_NEXT_BIT) md d).
Proof. reflexivity. Qed.

Theorem decode_encode bk f : wf f = true -> decode bk (encode f) = DOk (norm f).
Proof.
  intro W. unfold encode, prefix. rewrite <- ?app_assoc.
  destruct (flags_spec f) as (Hlt & Hi & Hm & H7 & H6 & H5).
  assert (fsid f < 2 ^ 31 /\ lenN (fmd f) < 2 ^ 24) as [Hsid Hmdl].
  { unfold wf in W. wf_split W. wf_arith. split; assumption. }
  rewrite decode_header; [|exact Hsid| |exact Hlt].
  2:{ pose proof gen_type_ids_fit_6_bits as G. rewrite forallb_forall in G.
      destruct f; apply N.ltb_lt; apply G; cbn; tauto. }
  assert (existsb (N.eqb (ftype f)) frame_class_ids = true) as -> by (destruct f; reflexivity).
  cbn [negb].
  unfold md_len_field, body_data.
  destruct f; cbn [ftype fsid fmd fdata md_only middle fign bit7 bit6 bit5 norm] in *;
    unfold wf in W; cbn [fsid fmd] in W; wf_split W; wf_arith.
  - (* Setup *)
    change (decode_body bk sid FT_SETUP (all_flags (FSetup sid ign lease major minor ka ml resume mdenc denc md d)))
      with (fun body => decode_body bk sid 1 (all_flags (FSetup sid ign lease major minor ka ml resume mdenc denc md d)) body).
    cbv beta. unfold decode_body. change (1 =? FT_SETUP) with true. cbv iota.
    rewrite <- ?app_assoc.
    rewrite get_be_app by (change (256 ^ N.of_nat 2) with (2 ^ 16); assumption). cbn [bind].
    rewrite get_be_app by (change (256 ^ N.of_nat 2) with (2 ^ 16); assumption). cbn [bind].
    rewrite get_be_app by (change (256 ^ N.of_nat 4) with (2 ^ 32); assumption). cbn [bind].
    rewrite get_be_app by (change (256 ^ N.of_nat 4) with (2 ^ 32); assumption). cbn [bind].
    rewrite H7, H6, Hi.
    destruct resume as [[tl tok]|].
    + wf_split W. wf_arith. subst tl.
      rewrite <- ?app_assoc.
      rewrite get_be_app by (change (256 ^ N.of_nat 2) with (2 ^ 16); assumption). cbn [bind].
      rewrite takeN_app_exact, dropN_app_exact.
      rewrite unpack_string_enc by assumption. rewrite unpack_string_enc by assumption.
      rewrite parse_md_data_enc by assumption. reflexivity.
    + cbn [app].
      rewrite unpack_string_enc by assumption. rewrite unpack_string_enc by assumption.
      rewrite parse_md_data_enc by assumption. reflexivity.
  - (* Lease *)
    unfold decode_body. ty_tests.
    rewrite !land_mask31 by assumption. rewrite <- ?app_assoc.
    rewrite get_be_app by (change (256 ^ N.of_nat 4) with (2 ^ 32); lia). cbn [bind].
    rewrite get_be_app by (change (256 ^ N.of_nat 4) with (2 ^ 32); lia). cbn [bind].
    rewrite !land_mask31 by assumption. rewrite Hi, Hm.
    destruct md; cbn [is_nil negb app]; [reflexivity|]. rewrite app_nil_r. reflexivity.
  - (* Keepalive *)
    unfold decode_body. ty_tests.
    rewrite land_mask63 by assumption. cbn [is_nil app].
    rewrite takeN_app_len by (rewrite lenN_be; reflexivity).
    rewrite dropN_app_len by (rewrite lenN_be; reflexivity).
    rewrite parse_position_be by assumption. rewrite Hi, H7. reflexivity.
  - (* RequestResponse *)
    unfold decode_body. ty_tests.
    cbn [app]. rewrite parse_md_data_enc by assumption. rewrite Hi, H7. reflexivity.
  - (* Fnf *)
    unfold decode_body. ty_tests.
    cbn [app]. rewrite parse_md_data_enc by assumption. rewrite Hi, H7. reflexivity.
  - (* RequestStream *)
    unfold decode_body. ty_tests.
    rewrite <- ?app_assoc.
    rewrite get_be_app by (change (256 ^ N.of_nat 4) with (2 ^ 32); assumption). cbn [bind].
    rewrite parse_md_data_enc by assumption. rewrite Hi, H7. reflexivity.
  - (* RequestChannel *)
    unfold decode_body. ty_tests.
    rewrite <- ?app_assoc.
    rewrite get_be_app by (change (256 ^ N.of_nat 4) with (2 ^ 32); assumption). cbn [bind].
    rewrite parse_md_data_enc by assumption. rewrite Hi, H7, H6. reflexivity.
  - (* RequestN *)
    unfold decode_body. ty_tests.
    cbn [is_nil app]. rewrite app_nil_r.
    rewrite <- (app_nil_r (be 4 n)).
    rewrite get_be_app by (change (256 ^ N.of_nat 4) with (2 ^ 32); assumption). cbn [bind].
    rewrite Hi. reflexivity.
  - (* Cancel *)
    unfold decode_body. ty_tests.
    rewrite Hi. reflexivity.
  - (* Payload *)
    rewrite decode_body_payloadlike. cbn [app]. rewrite parse_md_data_enc by assumption.
    rewrite Hi, H7, H6, H5. reflexivity.
  - (* Error *)
    unfold decode_body. ty_tests.
    cbn [is_nil app]. rewrite <- ?app_assoc.
    assert (existsb (N.eqb code) error_code_ids = true) as W0 by assumption.
    assert (code < 2 ^ 32) as Hc.
    { pose proof W0 as W0'. apply existsb_exists in W0'. destruct W0' as (x & Hin & Hx). apply N.eqb_eq in Hx. subst x.
      cbn in Hin. repeat (destruct Hin as [<-|Hin]; [cbv; reflexivity|]). destruct Hin. }
    rewrite get_be_app by (change (256 ^ N.of_nat 4) with (2 ^ 32); assumption). cbn [bind].
    rewrite W0, Hi. reflexivity.
  - (* MetadataPush *)
    unfold decode_body. ty_tests.
    rewrite Hi, Hm. subst sid. cbn [to_ignore]. change (0 =? CONNECTION_STREAM_ID) with true. cbn [negb].
    destruct md; cbn [is_nil negb app]; [reflexivity|]. rewrite app_nil_r. reflexivity.
  - (* Resume *)
    unfold decode_body. ty_tests.
    cbn [is_nil app]. rewrite app_nil_r. rewrite !land_mask63 by assumption. rewrite <- ?app_assoc.
    rewrite get_be_app by (change (256 ^ N.of_nat 2) with (2 ^ 16); assumption). cbn [bind].
    rewrite get_be_app by (change (256 ^ N.of_nat 2) with (2 ^ 16); assumption). cbn [bind].
    rewrite get_be_app by (change (256 ^ N.of_nat 2) with (2 ^ 16); assumption). cbn [bind].
    rewrite takeN_app_exact, dropN_app_exact.
    rewrite takeN_app_len by (rewrite lenN_be; reflexivity).
    rewrite dropN_app_len by (rewrite lenN_be; reflexivity).
    rewrite !parse_position_be by assumption. rewrite Hi. reflexivity.
  - (* ResumeOk *)
    unfold decode_body. ty_tests.
    cbn [is_nil app]. rewrite app_nil_r. rewrite land_mask63 by assumption.
    rewrite <- (app_nil_r (be 8 pos)).
    rewrite takeN_app_len by (rewrite lenN_be; reflexivity).
    rewrite parse_position_be by assumption. rewrite Hi. reflexivity.
Qed.

(* ---------- canonical bytes ---------- *)
Theorem encode_norm f : encode (norm f) = encode f.
Proof.
  destruct f; try reflexivity.
  cbn [norm]. unfold encode, prefix, all_flags, md_len_field, body_data. cbn [tflags fsid ftype fign fmd fdata md_only middle].
  replace ((next || has_content md d) || has_content md d) with (next || has_content md d)
    by (destruct next, (has_content md d); reflexivity).
  reflexivity.
Qed.

Corollary reencode bk f g : wf f = true -> decode bk (encode f) = DOk g -> encode g = encode f.
Proof. intros W E. rewrite decode_encode in E by exact W. injection E as <-. apply encode_norm. Qed.

Lemma wf_norm f : wf f = true -> wf (norm f) = true.
Proof. destruct f; cbn [norm]; auto. Qed.

(* ---------- the incrementally written form ---------- *)
Lemma lenN_mk_header sid ty flags : lenN (mk_header sid ty flags) = 6.
Proof. unfold mk_header, hdr_word. rewrite lenN_app, lenN_be. reflexivity. Qed.

Lemma frame_length_correct f : frame_length f = lenN (encode f).
Proof.
  unfold frame_length, encode, prefix, md_len_field. destruct gen_masks as (_ & _ & ->).
  rewrite !lenN_app, lenN_mk_header.
  destruct (is_nil (fmd f)); [rewrite lenN_nil; lia|].
  destruct (md_only f); [rewrite lenN_nil; lia|]. rewrite lenN_be. lia.
Qed.

Theorem partial_write f : encode_partial f = be 3 (lenN (encode f)) ++ encode f.
Proof.
  unfold encode_partial. rewrite frame_length_correct. unfold encode. rewrite <- ?app_assoc. reflexivity.
Qed.

Theorem partial_is_prefixed f : encode_partial f = encode_prefixed f.
Proof. rewrite partial_write. reflexivity. Qed.

(* the 3-byte length field is exact when the frame is shorter than 2^24 *)
Lemma prefix_length_exact f : lenN (encode f) < 2 ^ 24 ->
  get_be 3 (encode_partial f) = Some (lenN (encode f), encode f).
Proof. intro H. rewrite partial_write. apply get_be_app. exact H. Qed.

(* ---------- back ends ---------- *)
Theorem backend_independent_on_encodings f : wf f = true -> decode Native (encode f) = decode Cbit (encode f).
Proof. intro W. rewrite !decode_encode by exact W. reflexivity. Qed.

(* O1: with the reserved top bit of the stream id set the two header parsers disagree *)
Example backend_reserved_bit_diverges :
  decode Native [x80; x00; x00; x01; x24; x00] <> decode Cbit [x80; x00; x00; x01; x24; x00].
Proof. vm_compute. discriminate. Qed.

(* a METADATA_PUSH on a non-zero stream is dropped (is_frame_to_ignore) *)
Lemma metadata_push_nonzero_ignored bk sid ign md :
  0 < sid < 2 ^ 31 -> lenN md < 2 ^ 24 -> decode bk (encode (FMetadataPush sid ign md)) = DIgnored.
Proof.
  intros Hs Hl. set (f := FMetadataPush sid ign md).
  unfold encode, prefix. rewrite <- ?app_assoc.
  destruct (flags_spec f) as (Hlt & Hi & Hm & _).
  rewrite decode_header; [|cbn [fsid f]; lia|cbv; reflexivity|exact Hlt].
  change (existsb (N.eqb (ftype f)) frame_class_ids) with true. cbn [negb].
  unfold decode_body. cbn [ftype f]. ty_tests. cbn [to_ignore].
  destruct (N.eqb_spec (fsid f) CONNECTION_STREAM_ID) as [E|_]; [cbn [fsid f] in E; change CONNECTION_STREAM_ID with 0 in E; lia|].
  reflexivity.
Qed.

(* non-vacuity / sanity *)
Example wf_example :
  wf (FPayload 5 false false true false [x01] [x02; x03]) = true /\
  encode (FPayload 5 false false true false [x01] [x02; x03]) =
    [x00; x00; x00; x05; x29; x60; x00; x00; x01; x01; x02; x03].
Proof. vm_compute. split; reflexivity. Qed.
