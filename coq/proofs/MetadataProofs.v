(* Proofs about model/Metadata.v (C18).  The statements used by props/C18.v are at the end of each part. *)
From Coq Require Import ZArith NArith List Bool Lia ZifyBool ZifyNat ZifyN Init.Byte Strings.Byte.
From RSV Require Import lib.Bytes gen.GenMime model.Frame model.Metadata.
Import ListNotations.
Open Scope N_scope.

(* ------------------------------------------------------------------------------------------------ *)
(* Part A: dictionaries *)

Lemma dict_get_snoc {V} (t : list (bytes * V)) x k :
  dict_get (t ++ [x]) k = if bytes_eqb (fst x) k then Some (snd x) else dict_get t k.
Proof. unfold dict_get. rewrite fold_left_app. reflexivity. Qed.

Lemma dict_get_id_snoc (t : list (bytes * Z)) x i :
  dict_get_id (t ++ [x]) i = if Z.eqb (snd x) i then Some (fst x) else dict_get_id t i.
Proof. unfold dict_get_id. rewrite fold_left_app. reflexivity. Qed.

Lemma dict_get_In {V} (t : list (bytes * V)) k v : dict_get t k = Some v -> In (k, v) t.
Proof.
  induction t as [|x t IH] using rev_ind; [discriminate|].
  rewrite dict_get_snoc. destruct (bytes_eqb (fst x) k) eqn:E; intro H; apply in_or_app.
  - right. apply bytes_eqb_eq in E. injection H as <-. subst k. left. destruct x; reflexivity.
  - left. auto.
Qed.

Lemma dict_get_None {V} (t : list (bytes * V)) k : dict_get t k = None -> forall v, ~ In (k, v) t.
Proof.
  induction t as [|x t IH] using rev_ind; [intros _ v []|].
  rewrite dict_get_snoc. destruct (bytes_eqb (fst x) k) eqn:E; [discriminate|].
  intros H v Hin. apply in_app_or in Hin. destruct Hin as [Hin|[Ex|[]]].
  - exact (IH H v Hin).
  - subst x. cbn in E. assert (bytes_eqb k k = true) by (apply bytes_eqb_eq; reflexivity). congruence.
Qed.

Lemma dict_get_id_In (t : list (bytes * Z)) i n : dict_get_id t i = Some n -> In (n, i) t.
Proof.
  induction t as [|x t IH] using rev_ind; [discriminate|].
  rewrite dict_get_id_snoc. destruct (Z.eqb_spec (snd x) i) as [E|E]; intro H; apply in_or_app.
  - right. injection H as <-. subst i. left. destruct x; reflexivity.
  - left. auto.
Qed.

Lemma opt_Z_eqb_eq a b : opt_Z_eqb a b = true -> a = b.
Proof. destruct a, b; cbn; try discriminate; try reflexivity. intro H. apply Z.eqb_eq in H. congruence. Qed.
Lemma opt_bytes_eqb_eq a b : opt_bytes_eqb a b = true -> a = b.
Proof. destruct a, b; cbn; try discriminate; try reflexivity. intro H. apply bytes_eqb_eq in H. congruence. Qed.

Lemma nodupb_NoDup {A} (eqb : A -> A -> bool) (l : list A) :
  (forall x y, eqb x y = true <-> x = y) -> nodupb eqb l = true -> NoDup l.
Proof.
  intro Hs. induction l as [|x r IH]; intro H; [constructor|].
  cbn [nodupb] in H. apply andb_true_iff in H. destruct H as [H1 H2]. constructor; [|auto].
  intro Hin. apply negb_true_iff in H1. assert (existsb (eqb x) r = true); [|congruence].
  apply existsb_exists. exists x. split; [exact Hin|]. apply Hs. reflexivity.
Qed.

(* ------------------------------------------------------------------------------------------------ *)
(* Part B: the generated tables (finite checks by computation) *)

Lemma mime_table_ok : table_ok mime_table reserved_names = true.
Proof. vm_compute. reflexivity. Qed.
Lemma auth_table_ok : table_ok auth_table [] = true.
Proof. vm_compute. reflexivity. Qed.

Definition table_bijective (tbl : list (bytes * Z)) (reserved : list bytes) : Prop :=
  NoDup (map fst tbl) /\ NoDup (map snd tbl) /\
  (forall n id, In (n, id) tbl -> (0 <= id <= 127)%Z \/ In n reserved) /\
  (forall n id, dict_get tbl n = Some id <-> In (n, id) tbl) /\
  (forall n id, dict_get_id tbl id = Some n <-> In (n, id) tbl) /\
  (forall n id, dict_get tbl n = Some id <-> dict_get_id tbl id = Some n).

Lemma table_ok_bijective tbl reserved : table_ok tbl reserved = true -> table_bijective tbl reserved.
Proof.
  unfold table_ok. intro H. repeat (apply andb_true_iff in H; destruct H as [H ?]).
  rename H into Hn, H2 into Hi, H1 into Hr, H0 into Hl.
  rewrite forallb_forall in Hr, Hl.
  assert (Hg : forall n id, dict_get tbl n = Some id <-> In (n, id) tbl).
  { intros n id. split; [apply dict_get_In|]. intro Hin. specialize (Hl _ Hin). cbn in Hl.
    apply andb_true_iff in Hl. destruct Hl as [Hl _]. apply opt_Z_eqb_eq in Hl. exact Hl. }
  assert (Hd : forall n id, dict_get_id tbl id = Some n <-> In (n, id) tbl).
  { intros n id. split; [apply dict_get_id_In|]. intro Hin. specialize (Hl _ Hin). cbn in Hl.
    apply andb_true_iff in Hl. destruct Hl as [_ Hl]. apply opt_bytes_eqb_eq in Hl. exact Hl. }
  split; [|split; [|split; [|split; [|split]]]].
  - apply (nodupb_NoDup bytes_eqb); [apply bytes_eqb_eq|exact Hn].
  - apply (nodupb_NoDup Z.eqb); [apply Z.eqb_eq|exact Hi].
  - intros n id Hin. specialize (Hr _ Hin). cbn in Hr. apply orb_true_iff in Hr. destruct Hr as [Hr|Hr].
    + left. lia.
    + right. apply existsb_exists in Hr. destruct Hr as (x & Hx & E). apply bytes_eqb_eq in E. subst. exact Hx.
  - exact Hg.
  - exact Hd.
  - intros n id. rewrite Hg, Hd. reflexivity.
Qed.

Lemma tables_bijective : table_bijective mime_table reserved_names /\ table_bijective auth_table [].
Proof. split; apply table_ok_bijective; [exact mime_table_ok|exact auth_table_ok]. Qed.

Lemma mime_inverse n id : mime_id_of_name n = Some id -> dict_get_id mime_table id = Some n.
Proof. destruct tables_bijective as [(_ & _ & _ & _ & _ & H) _]. apply H. Qed.

(* ------------------------------------------------------------------------------------------------ *)
(* Part C: the header byte (finite checks by computation) *)

Lemma known_byte id : (0 <= id <= 127)%Z ->
  Byte.to_N (known_header id) = 128 + Z.to_N id.
Proof.
  intro H.
  assert (C : forallb (fun k => Byte.to_N (known_header (Z.of_nat k)) =? 128 + Z.to_N (Z.of_nat k))
                      (seq 0 128) = true) by (vm_compute; reflexivity).
  rewrite forallb_forall in C. specialize (C (Z.to_nat id)).
  rewrite Z2Nat.id in C by lia. apply N.eqb_eq. apply C. apply in_seq. lia.
Qed.

Lemma custom_byte l : (0 <= l <= 127)%Z -> Byte.to_N (custom_header l) = Z.to_N l.
Proof.
  intro H.
  assert (C : forallb (fun k => Byte.to_N (custom_header (Z.of_nat k)) =? Z.to_N (Z.of_nat k))
                      (seq 0 128) = true) by (vm_compute; reflexivity).
  rewrite forallb_forall in C. specialize (C (Z.to_nat l)).
  rewrite Z2Nat.id in C by lia. apply N.eqb_eq. apply C. apply in_seq. lia.
Qed.

(* ------------------------------------------------------------------------------------------------ *)
(* Part D: one well-known-or-custom header *)

Lemma ser_wk_nonempty tbl n h : ser_wk tbl n = Some h -> h <> [].
Proof.
  unfold ser_wk, ser_128max. destruct (dict_get tbl n).
  - intro E. injection E as <-. discriminate.
  - destruct (_ >? _)%Z; [discriminate|]. intro E. injection E as <-. discriminate.
Qed.

Lemma parse_wk_cons by_id b rest : parse_wk by_id (b :: rest) =
  if 128 <=? Byte.to_N b
  then match by_id (Byte.to_N b mod 128) with Some n => Some (n, 1) | None => None end
  else Some (takeN rest (Byte.to_N b mod 128 + 1), 1 + (Byte.to_N b mod 128 + 1)).
Proof. unfold parse_wk, parse_type. destruct (128 <=? Byte.to_N b); reflexivity. Qed.

Lemma wk_roundtrip n h rest : wf_name n = true -> ser_wk mime_table n = Some h ->
  parse_wk mime_name_of_id (h ++ rest) = Some (n, lenN h).
Proof.
  unfold wf_name, ser_wk, mime_id_of_name. destruct (dict_get mime_table n) as [id|] eqn:Eg.
  - intros Hid E. injection E as <-. assert (0 <= id <= 127)%Z as Hr by lia.
    change ([?x] ++ rest) with (x :: rest). rewrite parse_wk_cons. rewrite known_byte by exact Hr.
    destruct (N.leb_spec 128 (128 + Z.to_N id)) as [_|]; [|lia].
    replace ((128 + Z.to_N id) mod 128) with (Z.to_N id) by lia.
    unfold mime_name_of_id. rewrite Z2N.id by lia. rewrite (mime_inverse _ _ Eg). reflexivity.
  - intros Hl. unfold ser_128max. unfold lenN in Hl.
    destruct (Z.gtb_spec (Z.of_nat (length n) - 1) 127) as [|Hle]; [discriminate|].
    intro E. injection E as <-.
    change ((?x :: n) ++ rest) with (x :: n ++ rest). rewrite parse_wk_cons. rewrite custom_byte by lia.
    destruct (N.leb_spec 128 (Z.to_N (Z.of_nat (length n) - 1))) as [|_]; [lia|].
    replace (Z.to_N (Z.of_nat (length n) - 1) mod 128 + 1) with (lenN n) by (unfold lenN; lia).
    rewrite takeN_app_exact. f_equal. f_equal. unfold lenN. cbn [length]. lia.
Qed.

(* ------------------------------------------------------------------------------------------------ *)
(* Part E: tag lists *)

Lemma tags_roundtrip : forall tags s f, ser_tags tags = Some s -> (length s <= f)%nat -> parse_tags f s = tags.
Proof.
  induction tags as [|t r IH]; intros s f E Hf.
  - injection E as <-. destruct f; reflexivity.
  - cbn [ser_tags] in E. destruct (N.ltb_spec 255 (lenN t)) as [|Ht]; [discriminate|].
    destruct (ser_tags r) as [s'|] eqn:Er; [|discriminate]. injection E as <-.
    destruct f as [|f]; [cbn in Hf; lia|]. cbn [parse_tags].
    rewrite to_N_byte_of_N. rewrite N.mod_small by lia.
    rewrite takeN_app_exact, dropN_app_exact. f_equal. apply IH; [reflexivity|].
    cbn [length] in Hf. rewrite app_length in Hf. lia.
Qed.

(* ------------------------------------------------------------------------------------------------ *)
(* Part F: accepted MIME type lists *)

Lemma parse_mimes_step f buf : buf <> [] -> parse_mimes (S f) buf =
  match parse_wk mime_name_of_id buf with
  | None => None
  | Some (n, off) => match parse_mimes f (dropN buf off) with Some l => Some (n :: l) | None => None end
  end.
Proof. destruct buf; [congruence|reflexivity]. Qed.

Lemma mimes_roundtrip : forall encs s f, forallb wf_name encs = true -> ser_mimes encs = Some s ->
  (length s <= f)%nat -> parse_mimes f s = Some encs.
Proof.
  induction encs as [|e r IH]; intros s f Hw E Hf.
  - injection E as <-. destruct f; reflexivity.
  - cbn [forallb] in Hw. apply andb_true_iff in Hw. destruct Hw as [He Hr].
    cbn [ser_mimes] in E. destruct (ser_wk mime_table e) as [h|] eqn:Eh; [|discriminate].
    destruct (ser_mimes r) as [s'|] eqn:Er; [|discriminate]. injection E as <-.
    pose proof (ser_wk_nonempty _ _ _ Eh) as Hne.
    assert (length h <> 0)%nat as Hl by (destruct h; [congruence|cbn; lia]).
    rewrite app_length in Hf. destruct f as [|f]; [lia|].
    rewrite parse_mimes_step by (destruct h; [congruence|discriminate]).
    rewrite (wk_roundtrip _ _ _ He Eh). rewrite dropN_app_exact.
    rewrite (IH s' f Hr eq_refl) by lia. reflexivity.
Qed.

(* ------------------------------------------------------------------------------------------------ *)
(* Part G: authentication *)

Lemma pow256_2 : 256 ^ N.of_nat 2 = 65536. Proof. reflexivity. Qed.
Lemma pow256_3 : 256 ^ N.of_nat 3 = 16777216. Proof. reflexivity. Qed.

Lemma auth_headers :
  ser_wk auth_table auth_simple_type = Some [x80] /\ ser_wk auth_table auth_bearer_type = Some [x81] /\
  (forall rest, parse_wk auth_name_of_id (x80 :: rest) = Some (auth_simple_type, 1)) /\
  (forall rest, parse_wk auth_name_of_id (x81 :: rest) = Some (auth_bearer_type, 1)) /\
  dict_get auth_factory_table auth_simple_type = Some 1 /\
  dict_get auth_factory_table auth_bearer_type = Some 2.
Proof.
  split; [vm_compute; reflexivity|]. split; [vm_compute; reflexivity|].
  split; [intro rest; rewrite parse_wk_cons; vm_compute; reflexivity|].
  split; [intro rest; rewrite parse_wk_cons; vm_compute; reflexivity|].
  split; vm_compute; reflexivity.
Qed.

Lemma dropN_1 b r : dropN (b :: r) 1 = r.
Proof. destruct r; reflexivity. Qed.

Lemma auth_roundtrip a body : wf_entry (EAuth a) = true -> entry_body (EAuth a) = Some body ->
  parse_auth body = Some a.
Proof.
  destruct auth_headers as (Hs & Hb & Ps & Pb & Fs & Fb).
  unfold wf_entry. intro Hw. apply andb_true_iff in Hw. destruct Hw as [_ Hw].
  cbn [entry_body]. destruct a as [u p|t]; cbn [auth_type ser_auth_body].
  - rewrite Hs. destruct (lenN u <? 4294967296); [|discriminate]. intro E. injection E as <-.
    remember (be 2 (lenN u) ++ u ++ p) as tail eqn:Et.
    unfold parse_auth. change ([x80] ++ tail) with (x80 :: tail). rewrite Ps, Fs.
    change (1 =? 1) with true. cbv iota. rewrite dropN_1. subst tail.
    rewrite get_be_app by (rewrite pow256_2; lia).
    rewrite takeN_app_exact, dropN_app_exact. reflexivity.
  - rewrite Hb. intro E. injection E as <-.
    unfold parse_auth. change ([x81] ++ t) with (x81 :: t). rewrite Pb, Fb.
    change (2 =? 1) with false. cbv iota. rewrite dropN_1. reflexivity.
Qed.

(* ------------------------------------------------------------------------------------------------ *)
(* Part H: one entry body *)

Lemma typed_ctor_kinds :
  typed_kind (ctor_encoding 1) = Some 1 /\ typed_kind (ctor_encoding 2) = Some 2 /\
  typed_kind (ctor_encoding 3) = Some 3 /\ typed_kind (ctor_encoding 4) = Some 4 /\
  wf_name (ctor_encoding 1) = true /\ wf_name (ctor_encoding 2) = true /\
  wf_name (ctor_encoding 3) = true /\ wf_name (ctor_encoding 4) = true.
Proof. repeat split; vm_compute; reflexivity. Qed.

Lemma item_roundtrip e body : wf_entry e = true -> entry_body e = Some body ->
  parse_item (entry_encoding e) body = Some e.
Proof.
  destruct typed_ctor_kinds as (K1 & K2 & K3 & K4 & _).
  intros Hw Eb. pose proof Hw as Hw0. unfold wf_entry in Hw. apply andb_true_iff in Hw. destruct Hw as [_ Hw].
  destruct e as [enc c|tags|enc|encs|a]; cbn [entry_encoding]; unfold parse_item.
  - apply andb_true_iff in Hw. destruct Hw as [_ Hk]. destruct (typed_kind enc); [discriminate|].
    cbn [entry_body] in Eb. injection Eb as <-. reflexivity.
  - rewrite K1. change (1 =? 1) with true. cbv iota. cbn [entry_body] in Eb.
    rewrite (tags_roundtrip tags body (length body) Eb) by lia. reflexivity.
  - rewrite K2. change (2 =? 1) with false. change (2 =? 2) with true. cbv iota. cbn [entry_body] in Eb.
    rewrite <- (app_nil_r body). rewrite (wk_roundtrip _ _ [] Hw Eb). reflexivity.
  - rewrite K3. change (3 =? 1) with false. change (3 =? 2) with false. change (3 =? 3) with true. cbv iota.
    cbn [entry_body] in Eb. rewrite (mimes_roundtrip encs body (length body) Hw Eb) by lia. reflexivity.
  - rewrite K4. change (4 =? 1) with false. change (4 =? 2) with false. change (4 =? 3) with false. cbv iota.
    rewrite (auth_roundtrip a body Hw0 Eb). reflexivity.
Qed.

Lemma entry_header_wf e : wf_entry e = true -> wf_name (entry_encoding e) = true.
Proof.
  destruct typed_ctor_kinds as (_ & _ & _ & _ & W1 & W2 & W3 & W4).
  unfold wf_entry. intro Hw. apply andb_true_iff in Hw. destruct Hw as [_ Hw].
  destruct e; cbn [entry_encoding]; auto.
  apply andb_true_iff in Hw. tauto.
Qed.

(* ------------------------------------------------------------------------------------------------ *)
(* Part I: the composite loop *)

Lemma cm_decode_fuel_step f buf : buf <> [] -> cm_decode_fuel (S f) buf =
  match parse_wk mime_name_of_id buf with
  | None => None
  | Some (enc, off) =>
      match get_be 3 (dropN buf off) with
      | None => None
      | Some (len, r2) =>
          match parse_item enc (takeN r2 len) with
          | None => None
          | Some e => match cm_decode_fuel f (dropN r2 len) with Some es => Some (e :: es) | None => None end
          end
      end
  end.
Proof. destruct buf; [congruence|reflexivity]. Qed.

Lemma pack24_small bk n : n < 16777216 -> pack24 bk n = Some (be 3 n).
Proof.
  intro H. destruct bk; cbn [pack24].
  - destruct (N.ltb_spec n 4294967296); [reflexivity|lia].
  - destruct (N.ltb_spec n 16777216); [reflexivity|lia].
Qed.

(* the shape of one encoded entry *)
Lemma enc_entry_wf bk e x : wf_entry e = true -> enc_entry bk e = Some x ->
  exists h b, ser_wk mime_table (entry_encoding e) = Some h /\ entry_body e = Some b /\
              lenN b < 16777216 /\ x = h ++ be 3 (lenN b) ++ b.
Proof.
  intros Hw. unfold enc_entry. destruct (ser_wk mime_table (entry_encoding e)) as [h|]; [|discriminate].
  assert (body_fits e = true) as Hf by (unfold wf_entry in Hw; apply andb_true_iff in Hw; tauto).
  unfold body_fits in Hf. destruct (entry_body e) as [b|]; [|discriminate].
  apply N.ltb_lt in Hf. rewrite pack24_small by exact Hf. intro E. injection E as <-.
  exists h, b. auto.
Qed.

Lemma decode_encode_fuel : forall items bk bs f, wf_cm items = true -> cm_encode_bk bk items = Some bs ->
  (length bs <= f)%nat -> cm_decode_fuel f bs = Some items.
Proof.
  induction items as [|e r IH]; intros bk bs f Hw E Hf.
  - injection E as <-. destruct f; reflexivity.
  - cbn [wf_cm forallb] in Hw. apply andb_true_iff in Hw. destruct Hw as [He Hr].
    cbn [cm_encode_bk] in E. destruct (enc_entry bk e) as [x|] eqn:Ex; [|discriminate].
    destruct (cm_encode_bk bk r) as [y|] eqn:Ey; [|discriminate]. injection E as <-.
    destruct (enc_entry_wf _ _ _ He Ex) as (h & b & Eh & Eb & Hb & ->).
    pose proof (ser_wk_nonempty _ _ _ Eh) as Hne.
    rewrite !app_length in Hf. assert (length h <> 0)%nat by (destruct h; [congruence|cbn; lia]).
    destruct f as [|f]; [lia|].
    rewrite <- !app_assoc.
    rewrite cm_decode_fuel_step by (destruct h; [congruence|discriminate]).
    rewrite (wk_roundtrip _ _ _ (entry_header_wf _ He) Eh). rewrite dropN_app_exact.
    rewrite get_be_app by (rewrite pow256_3; exact Hb).
    rewrite takeN_app_exact, dropN_app_exact.
    rewrite (item_roundtrip _ _ He Eb).
    rewrite (IH bk y f Hr Ey) by lia. reflexivity.
Qed.

Lemma wf_encodes : forall items bk, wf_cm items = true -> exists bs, cm_encode_bk bk items = Some bs.
Proof.
  induction items as [|e r IH]; intros bk Hw; [exists []; reflexivity|].
  cbn [wf_cm forallb] in Hw. apply andb_true_iff in Hw. destruct Hw as [He Hr].
  destruct (IH bk Hr) as (y & Ey). cbn [cm_encode_bk]. rewrite Ey.
  assert (exists x, enc_entry bk e = Some x) as (x & ->); [|eexists; reflexivity].
  unfold enc_entry.
  assert (exists h, ser_wk mime_table (entry_encoding e) = Some h) as (h & ->).
  { pose proof (entry_header_wf _ He) as Hn. unfold wf_name, mime_id_of_name in Hn. unfold ser_wk, ser_128max.
    destruct (dict_get mime_table (entry_encoding e)); [eexists; reflexivity|].
    unfold lenN in Hn. destruct (Z.gtb_spec (Z.of_nat (length (entry_encoding e)) - 1) 127); [lia|eexists; reflexivity]. }
  assert (body_fits e = true) as Hf by (unfold wf_entry in He; apply andb_true_iff in He; tauto).
  unfold body_fits in Hf. destruct (entry_body e) as [b|]; [|discriminate].
  apply N.ltb_lt in Hf. rewrite pack24_small by exact Hf. eexists; reflexivity.
Qed.

(* C18_roundtrip (either back end) *)
Theorem roundtrip_bk : forall bk items, wf_cm items = true ->
  exists bs, cm_encode_bk bk items = Some bs /\ cm_decode bs = Some items.
Proof.
  intros bk items Hw. destruct (wf_encodes items bk Hw) as (bs & E). exists bs. split; [exact E|].
  unfold cm_decode. apply (decode_encode_fuel items bk); auto.
Qed.

Theorem roundtrip : forall items, wf_cm items = true ->
  exists bs, cm_encode items = Some bs /\ cm_decode bs = Some items.
Proof. apply roundtrip_bk. Qed.

(* the two back ends produce the same bytes on well-formed entries *)
Theorem backend_independent : forall items, wf_cm items = true -> cm_encode_bk Native items = cm_encode_bk Cbit items.
Proof.
  induction items as [|e r IH]; intro Hw; [reflexivity|].
  cbn [wf_cm forallb] in Hw. apply andb_true_iff in Hw. destruct Hw as [He Hr].
  cbn [cm_encode_bk]. rewrite (IH Hr). f_equal. unfold enc_entry.
  destruct (ser_wk mime_table (entry_encoding e)); [|reflexivity].
  assert (body_fits e = true) as Hf by (unfold wf_entry in He; apply andb_true_iff in He; tauto).
  unfold body_fits in Hf. destruct (entry_body e) as [b|]; [|reflexivity].
  apply N.ltb_lt in Hf. rewrite !pack24_small by exact Hf. reflexivity.
Qed.

(* C18_reencode *)
Theorem reencode : forall bk items bs, cm_encode_bk bk items = Some bs -> wf_cm items = true ->
  forall items', cm_decode bs = Some items' -> cm_encode_bk bk items' = Some bs.
Proof.
  intros bk items bs E Hw items' D. destruct (roundtrip_bk bk items Hw) as (bs' & E' & D').
  rewrite E in E'. injection E' as <-. rewrite D in D'. injection D' as ->. exact E.
Qed.
