(* Proofs about model/Metadata.v (C18).  The statements used by props/C18.v are at the end of each part. *)
From Coq Require Import ZArith NArith List Bool Lia ZifyBool ZifyNat ZifyN Init.Byte Strings.Byte.
From Coq Require Strings.String.
From RSV Require Import lib.Bytes gen.GenMime model.Frame model.Metadata.
Import ListNotations.
Import Strings.String.StringSyntax.
Open Scope N_scope.

(* ------------------------------------------------------------------------------------------------ *)
(* Part A: dictionaries *)

Lemma dict_get_snoc {V} (t : list (bytes * V)) x k :
  dict_get (t ++ [x]) k = if bytes_eqb (fst x) k then Some (snd x) else dict_get t k.
Proof. unfold dict_get. rewrite fold_left_app. reflexivity. Qed.

Lemma dict_get_id_snoc (t : list (bytes * Z)) x i :
  dict_get_id (t ++ [x]) i = if Z.eqb (snd x) i then Some (fst x) else dict_get_id t i.
Proof. unfold dict_get_id. rewrite fold_left_app. reflexivity. Qed.

Lemma dict_get_In {V} (t : list (bytes * V)) k v : dict_get t k = Some v -> In (k, v) t.
Proof.
  induction t as [|x t IH] using rev_ind; [discriminate|].
  rewrite dict_get_snoc. destruct (bytes_eqb (fst x) k) eqn:E; intro H; apply in_or_app.
  - right. apply bytes_eqb_eq in E. injection H as <-. subst k. left. destruct x; reflexivity.
  - left. auto.
Qed.

Lemma dict_get_None {V} (t : list (bytes * V)) k : dict_get t k = None -> forall v, ~ In (k, v) t.
Proof.
  induction t as [|x t IH] using rev_ind; [intros _ v []|].
  rewrite dict_get_snoc. destruct (bytes_eqb (fst x) k) eqn:E; [discriminate|].
  intros H v Hin. apply in_app_or in Hin. destruct Hin as [Hin|[Ex|[]]].
  - exact (IH H v Hin).
  - subst x. cbn in E. assert (bytes_eqb k k = true) by (apply bytes_eqb_eq; reflexivity). congruence.
Qed.

Lemma dict_get_id_In (t : list (bytes * Z)) i n : dict_get_id t i = Some n -> In (n, i) t.
Proof.
  induction t as [|x t IH] using rev_ind; [discriminate|].
  rewrite dict_get_id_snoc. destruct (Z.eqb_spec (snd x) i) as [E|E]; intro H; apply in_or_app.
  - right. injection H as <-. subst i. left. destruct x; reflexivity.
  - left. auto.
Qed.

Lemma opt_Z_eqb_eq a b : opt_Z_eqb a b = true -> a = b.
Proof. destruct a, b; cbn; try discriminate; try reflexivity. intro H. apply Z.eqb_eq in H. congruence. Qed.
Lemma opt_bytes_eqb_eq a b : opt_bytes_eqb a b = true -> a = b.
Proof. destruct a, b; cbn; try discriminate; try reflexivity. intro H. apply bytes_eqb_eq in H. congruence. Qed.

Lemma nodupb_NoDup {A} (eqb : A -> A -> bool) (l : list A) :
  (forall x y, eqb x y = true <-> x = y) -> nodupb eqb l = true -> NoDup l.
Proof.
  intro Hs. induction l as [|x r IH]; intro H; [constructor|].
  cbn [nodupb] in H. apply andb_true_iff in H. destruct H as [H1 H2]. constructor; [|auto].
  intro Hin. apply negb_true_iff in H1. assert (existsb (eqb x) r = true); [|congruence].
  apply existsb_exists. exists x. split; [exact Hin|]. apply Hs. reflexivity.
Qed.

(* ------------------------------------------------------------------------------------------------ *)
(* Part B: the generated tables (finite checks by computation) *)

Lemma mime_table_ok : table_ok mime_table reserved_names = true.
Proof. vm_compute. reflexivity. Qed.
Lemma auth_table_ok : table_ok auth_table [] = true.
Proof. vm_compute. reflexivity. Qed.

Definition table_bijective (tbl : list (bytes * Z)) (reserved : list bytes) : Prop :=
  NoDup (map fst tbl) /\ NoDup (map snd tbl) /\
  (forall n id, In (n, id) tbl -> (0 <= id <= 127)%Z \/ In n reserved) /\
  (forall n id, dict_get tbl n = Some id <-> In (n, id) tbl) /\
  (forall n id, dict_get_id tbl id = Some n <-> In (n, id) tbl) /\
  (forall n id, dict_get tbl n = Some id <-> dict_get_id tbl id = Some n).

Lemma table_ok_bijective tbl reserved : table_ok tbl reserved = true -> table_bijective tbl reserved.
Proof.
  unfold table_ok. intro H. repeat (apply andb_true_iff in H; destruct H as [H ?]).
  rename H into Hn, H2 into Hi, H1 into Hr, H0 into Hl.
  rewrite forallb_forall in Hr, Hl.
  assert (Hg : forall n id, dict_get tbl n = Some id <-> In (n, id) tbl).
  { intros n id. split; [apply dict_get_In|]. intro Hin. specialize (Hl _ Hin). cbn in Hl.
    apply andb_true_iff in Hl. destruct Hl as [Hl _]. apply opt_Z_eqb_eq in Hl. exact Hl. }
  assert (Hd : forall n id, dict_get_id tbl id = Some n <-> In (n, id) tbl).
  { intros n id. split; [apply dict_get_id_In|]. intro Hin. specialize (Hl _ Hin). cbn in Hl.
    apply andb_true_iff in Hl. destruct Hl as [_ Hl]. apply opt_bytes_eqb_eq in Hl. exact Hl. }
  split; [|split; [|split; [|split; [|split]]]].
  - apply (nodupb_NoDup bytes_eqb); [apply bytes_eqb_eq|exact Hn].
  - apply (nodupb_NoDup Z.eqb); [apply Z.eqb_eq|exact Hi].
  - intros n id Hin. specialize (Hr _ Hin). cbn in Hr. apply orb_true_iff in Hr. destruct Hr as [Hr|Hr].
    + left. lia.
    + right. apply existsb_exists in Hr. destruct Hr as (x & Hx & E). apply bytes_eqb_eq in E. subst. exact Hx.
  - exact Hg.
  - exact Hd.
  - intros n id. rewrite Hg, Hd. reflexivity.
Qed.

Lemma tables_bijective : table_bijective mime_table reserved_names /\ table_bijective auth_table [].
Proof. split; apply table_ok_bijective; [exact mime_table_ok|exact auth_table_ok]. Qed.

Lemma mime_inverse n id : mime_id_of_name n = Some id -> dict_get_id mime_table id = Some n.
Proof. destruct tables_bijective as [(_ & _ & _ & _ & _ & H) _]. apply H. Qed.

(* ------------------------------------------------------------------------------------------------ *)
(* Part C: the header byte (finite checks by computation) *)

Lemma known_byte id : (0 <= id <= 127)%Z ->
  Byte.to_N (known_header id) = 128 + Z.to_N id.
Proof.
  intro H.
  assert (C : forallb (fun k => Byte.to_N (known_header (Z.of_nat k)) =? 128 + Z.to_N (Z.of_nat k))
                      (seq 0 128) = true) by (vm_compute; reflexivity).
  rewrite forallb_forall in C. specialize (C (Z.to_nat id)).
  rewrite Z2Nat.id in C by lia. apply N.eqb_eq. apply C. apply in_seq. lia.
Qed.

Lemma custom_byte l : (0 <= l <= 127)%Z -> Byte.to_N (custom_header l) = Z.to_N l.
Proof.
  intro H.
  assert (C : forallb (fun k => Byte.to_N (custom_header (Z.of_nat k)) =? Z.to_N (Z.of_nat k))
                      (seq 0 128) = true) by (vm_compute; reflexivity).
  rewrite forallb_forall in C. specialize (C (Z.to_nat l)).
  rewrite Z2Nat.id in C by lia. apply N.eqb_eq. apply C. apply in_seq. lia.
Qed.

(* ------------------------------------------------------------------------------------------------ *)
(* Part D: one well-known-or-custom header *)

Lemma ser_wk_nonempty tbl n h : ser_wk tbl n = Some h -> h <> [].
Proof.
  unfold ser_wk, ser_128max. destruct (dict_get tbl n).
  - intro E. injection E as <-. discriminate.
  - destruct (_ >? _)%Z; [discriminate|]. intro E. injection E as <-. discriminate.
Qed.

Lemma parse_wk_cons by_id b rest : parse_wk by_id (b :: rest) =
  if 128 <=? Byte.to_N b
  then match by_id (Byte.to_N b mod 128) with Some n => Some (n, 1) | None => None end
  else Some (takeN rest (Byte.to_N b mod 128 + 1), 1 + (Byte.to_N b mod 128 + 1)).
Proof. unfold parse_wk, parse_type. destruct (128 <=? Byte.to_N b); reflexivity. Qed.

Lemma wk_roundtrip n h rest : wf_name n = true -> ser_wk mime_table n = Some h ->
  parse_wk mime_name_of_id (h ++ rest) = Some (n, lenN h).
Proof.
  unfold wf_name, ser_wk, mime_id_of_name. destruct (dict_get mime_table n) as [id|] eqn:Eg.
  - intros Hid E. injection E as <-. assert (0 <= id <= 127)%Z as Hr by lia.
    change ([?x] ++ rest) with (x :: rest). rewrite parse_wk_cons. rewrite known_byte by exact Hr.
    destruct (N.leb_spec 128 (128 + Z.to_N id)) as [_|]; [|lia].
    replace ((128 + Z.to_N id) mod 128) with (Z.to_N id) by lia.
    unfold mime_name_of_id. rewrite Z2N.id by lia. rewrite (mime_inverse _ _ Eg). reflexivity.
  - intros Hl. unfold ser_128max. unfold lenN in Hl.
    destruct (Z.gtb_spec (Z.of_nat (length n) - 1) 127) as [|Hle]; [discriminate|].
    intro E. injection E as <-.
    change ((?x :: n) ++ rest) with (x :: n ++ rest). rewrite parse_wk_cons. rewrite custom_byte by lia.
    destruct (N.leb_spec 128 (Z.to_N (Z.of_nat (length n) - 1))) as [|_]; [lia|].
    replace (Z.to_N (Z.of_nat (length n) - 1) mod 128 + 1) with (lenN n) by (unfold lenN; lia).
    rewrite takeN_app_exact. f_equal. f_equal. unfold lenN. cbn [length]. lia.
Qed.

(* ------------------------------------------------------------------------------------------------ *)
(* Part E: tag lists *)

Lemma tags_roundtrip : forall tags s f, ser_tags tags = Some s -> (length s <= f)%nat -> parse_tags f s = tags.
Proof.
  induction tags as [|t r IH]; intros s f E Hf.
  - injection E as <-. destruct f; reflexivity.
  - cbn [ser_tags] in E. destruct (N.ltb_spec 255 (lenN t)) as [|Ht]; [discriminate|].
    destruct (ser_tags r) as [s'|] eqn:Er; [|discriminate]. injection E as <-.
    destruct f as [|f]; [cbn in Hf; lia|]. cbn [parse_tags].
    rewrite to_N_byte_of_N. rewrite N.mod_small by lia.
    rewrite takeN_app_exact, dropN_app_exact. f_equal. apply IH; [reflexivity|].
    cbn [length] in Hf. rewrite app_length in Hf. lia.
Qed.

(* ------------------------------------------------------------------------------------------------ *)
(* Part F: accepted MIME type lists *)

Lemma parse_mimes_step f buf : buf <> [] -> parse_mimes (S f) buf =
  match parse_wk mime_name_of_id buf with
  | None => None
  | Some (n, off) => match parse_mimes f (dropN buf off) with Some l => Some (n :: l) | None => None end
  end.
Proof. destruct buf; [congruence|reflexivity]. Qed.

Lemma mimes_roundtrip : forall encs s f, forallb wf_name encs = true -> ser_mimes encs = Some s ->
  (length s <= f)%nat -> parse_mimes f s = Some encs.
Proof.
  induction encs as [|e r IH]; intros s f Hw E Hf.
  - injection E as <-. destruct f; reflexivity.
  - cbn [forallb] in Hw. apply andb_true_iff in Hw. destruct Hw as [He Hr].
    cbn [ser_mimes] in E. destruct (ser_wk mime_table e) as [h|] eqn:Eh; [|discriminate].
    destruct (ser_mimes r) as [s'|] eqn:Er; [|discriminate]. injection E as <-.
    pose proof (ser_wk_nonempty _ _ _ Eh) as Hne.
    assert (length h <> 0)%nat as Hl by (destruct h; [congruence|cbn; lia]).
    rewrite app_length in Hf. destruct f as [|f]; [lia|].
    rewrite parse_mimes_step by (destruct h; [congruence|discriminate]).
    rewrite (wk_roundtrip _ _ _ He Eh). rewrite dropN_app_exact.
    rewrite (IH s' f Hr eq_refl) by lia. reflexivity.
Qed.

(* ------------------------------------------------------------------------------------------------ *)
(* Part G: authentication *)

Lemma pow256_2 : 256 ^ N.of_nat 2 = 65536. Proof. reflexivity. Qed.
Lemma pow256_3 : 256 ^ N.of_nat 3 = 16777216. Proof. reflexivity. Qed.

Lemma auth_headers :
  ser_wk auth_table auth_simple_type = Some [x80] /\ ser_wk auth_table auth_bearer_type = Some [x81] /\
  (forall rest, parse_wk auth_name_of_id (x80 :: rest) = Some (auth_simple_type, 1)) /\
  (forall rest, parse_wk auth_name_of_id (x81 :: rest) = Some (auth_bearer_type, 1)) /\
  dict_get auth_factory_table auth_simple_type = Some 1 /\
  dict_get auth_factory_table auth_bearer_type = Some 2.
Proof.
  split; [vm_compute; reflexivity|]. split; [vm_compute; reflexivity|].
  split; [intro rest; rewrite parse_wk_cons; vm_compute; reflexivity|].
  split; [intro rest; rewrite parse_wk_cons; vm_compute; reflexivity|].
  split; vm_compute; reflexivity.
Qed.

Lemma Some_inj {A} (a b : A) : Some a = Some b -> a = b.
Proof. congruence. Qed.

Lemma dropN_1 b r : dropN (b :: r) 1 = r.
Proof. destruct r; reflexivity. Qed.

Lemma auth_roundtrip a body : wf_entry (EAuth a) = true -> entry_body (EAuth a) = Some body ->
  parse_auth body = Some a.
Proof.
  destruct auth_headers as (Hs & Hb & Ps & Pb & Fs & Fb).
  unfold wf_entry. intro Hw. apply andb_true_iff in Hw. destruct Hw as [_ Hw].
  cbn [entry_body]. destruct a as [u p|t]; cbn [auth_type ser_auth_body].
  - rewrite Hs. destruct (lenN u <? 4294967296); [|discriminate]. intro E. apply Some_inj in E. subst body.
    remember (be 2 (lenN u) ++ u ++ p) as tail eqn:Et.
    unfold parse_auth. change ([x80] ++ tail) with (x80 :: tail). rewrite Ps, Fs.
    change (1 =? 1) with true. cbv iota. rewrite dropN_1. subst tail.
    rewrite get_be_app by (rewrite pow256_2; lia).
    rewrite takeN_app_exact, dropN_app_exact. reflexivity.
  - rewrite Hb. intro E. apply Some_inj in E. subst body.
    unfold parse_auth. change ([x81] ++ t) with (x81 :: t). rewrite Pb, Fb.
    change (2 =? 1) with false. cbv iota. rewrite dropN_1. reflexivity.
Qed.

(* ------------------------------------------------------------------------------------------------ *)
(* Part H: one entry body *)

Lemma typed_ctor_kinds :
  typed_kind (ctor_encoding 1) = Some 1 /\ typed_kind (ctor_encoding 2) = Some 2 /\
  typed_kind (ctor_encoding 3) = Some 3 /\ typed_kind (ctor_encoding 4) = Some 4 /\
  wf_name (ctor_encoding 1) = true /\ wf_name (ctor_encoding 2) = true /\
  wf_name (ctor_encoding 3) = true /\ wf_name (ctor_encoding 4) = true.
Proof. repeat split; vm_compute; reflexivity. Qed.

Lemma item_roundtrip e body : wf_entry e = true -> entry_body e = Some body ->
  parse_item (entry_encoding e) body = Some e.
Proof.
  destruct typed_ctor_kinds as (K1 & K2 & K3 & K4 & _).
  intros Hw Eb. pose proof Hw as Hw0. unfold wf_entry in Hw. apply andb_true_iff in Hw. destruct Hw as [_ Hw].
  destruct e as [enc c|tags|enc|encs|a]; cbn [entry_encoding]; unfold parse_item.
  - apply andb_true_iff in Hw. destruct Hw as [_ Hk]. destruct (typed_kind enc); [discriminate|].
    cbn [entry_body] in Eb. injection Eb as <-. reflexivity.
  - rewrite K1. change (1 =? 1) with true. cbv iota. cbn [entry_body] in Eb.
    rewrite (tags_roundtrip tags body (length body) Eb) by lia. reflexivity.
  - rewrite K2. change (2 =? 1) with false. change (2 =? 2) with true. cbv iota. cbn [entry_body] in Eb.
    rewrite <- (app_nil_r body). rewrite (wk_roundtrip _ _ [] Hw Eb). reflexivity.
  - rewrite K3. change (3 =? 1) with false. change (3 =? 2) with false. change (3 =? 3) with true. cbv iota.
    cbn [entry_body] in Eb. rewrite (mimes_roundtrip encs body (length body) Hw Eb) by lia. reflexivity.
  - rewrite K4. change (4 =? 1) with false. change (4 =? 2) with false. change (4 =? 3) with false. cbv iota.
    rewrite (auth_roundtrip a body Hw0 Eb). reflexivity.
Qed.

Lemma entry_header_wf e : wf_entry e = true -> wf_name (entry_encoding e) = true.
Proof.
  destruct typed_ctor_kinds as (_ & _ & _ & _ & W1 & W2 & W3 & W4).
  unfold wf_entry. intro Hw. apply andb_true_iff in Hw. destruct Hw as [_ Hw].
  destruct e; cbn [entry_encoding]; auto.
  apply andb_true_iff in Hw. tauto.
Qed.

(* ------------------------------------------------------------------------------------------------ *)
(* Part I: the composite loop *)

Lemma cm_decode_fuel_step f buf : buf <> [] -> cm_decode_fuel (S f) buf =
  match parse_wk mime_name_of_id buf with
  | None => None
  | Some (enc, off) =>
      match get_be 3 (dropN buf off) with
      | None => None
      | Some (len, r2) =>
          match parse_item enc (takeN r2 len) with
          | None => None
          | Some e => match cm_decode_fuel f (dropN r2 len) with Some es => Some (e :: es) | None => None end
          end
      end
  end.
Proof. destruct buf; [congruence|reflexivity]. Qed.

Lemma pack24_small bk n : n < 16777216 -> pack24 bk n = Some (be 3 n).
Proof.
  intro H. destruct bk; cbn [pack24].
  - destruct (N.ltb_spec n 4294967296); [reflexivity|lia].
  - destruct (N.ltb_spec n 16777216); [reflexivity|lia].
Qed.

(* the shape of one encoded entry *)
Lemma enc_entry_wf bk e x : wf_entry e = true -> enc_entry bk e = Some x ->
  exists h b, ser_wk mime_table (entry_encoding e) = Some h /\ entry_body e = Some b /\
              lenN b < 16777216 /\ x = h ++ be 3 (lenN b) ++ b.
Proof.
  intros Hw. unfold enc_entry. destruct (ser_wk mime_table (entry_encoding e)) as [h|]; [|discriminate].
  assert (body_fits e = true) as Hf by (unfold wf_entry in Hw; apply andb_true_iff in Hw; tauto).
  unfold body_fits in Hf. destruct (entry_body e) as [b|]; [|discriminate].
  apply N.ltb_lt in Hf. rewrite pack24_small by exact Hf. intro E. injection E as <-.
  exists h, b. auto.
Qed.

Lemma decode_encode_fuel : forall items bk bs f, wf_cm items = true -> cm_encode_bk bk items = Some bs ->
  (length bs <= f)%nat -> cm_decode_fuel f bs = Some items.
Proof.
  induction items as [|e r IH]; intros bk bs f Hw E Hf.
  - injection E as <-. destruct f; reflexivity.
  - cbn [wf_cm forallb] in Hw. apply andb_true_iff in Hw. destruct Hw as [He Hr].
    cbn [cm_encode_bk] in E. destruct (enc_entry bk e) as [x|] eqn:Ex; [|discriminate].
    destruct (cm_encode_bk bk r) as [y|] eqn:Ey; [|discriminate]. injection E as <-.
    destruct (enc_entry_wf _ _ _ He Ex) as (h & b & Eh & Eb & Hb & ->).
    pose proof (ser_wk_nonempty _ _ _ Eh) as Hne.
    rewrite !app_length in Hf. assert (length h <> 0)%nat by (destruct h; [congruence|cbn; lia]).
    destruct f as [|f]; [lia|].
    rewrite <- !app_assoc.
    rewrite cm_decode_fuel_step by (destruct h; [congruence|discriminate]).
    rewrite (wk_roundtrip _ _ _ (entry_header_wf _ He) Eh). rewrite dropN_app_exact.
    rewrite get_be_app by (rewrite pow256_3; exact Hb).
    rewrite takeN_app_exact, dropN_app_exact.
    rewrite (item_roundtrip _ _ He Eb).
    rewrite (IH bk y f Hr Ey) by lia. reflexivity.
Qed.

Lemma wf_encodes : forall items bk, wf_cm items = true -> exists bs, cm_encode_bk bk items = Some bs.
Proof.
  induction items as [|e r IH]; intros bk Hw; [exists []; reflexivity|].
  cbn [wf_cm forallb] in Hw. apply andb_true_iff in Hw. destruct Hw as [He Hr].
  destruct (IH bk Hr) as (y & Ey). cbn [cm_encode_bk]. rewrite Ey.
  assert (exists x, enc_entry bk e = Some x) as (x & ->); [|eexists; reflexivity].
  unfold enc_entry.
  assert (exists h, ser_wk mime_table (entry_encoding e) = Some h) as (h & ->).
  { pose proof (entry_header_wf _ He) as Hn. unfold wf_name, mime_id_of_name in Hn. unfold ser_wk, ser_128max.
    destruct (dict_get mime_table (entry_encoding e)); [eexists; reflexivity|].
    unfold lenN in Hn. destruct (Z.gtb_spec (Z.of_nat (length (entry_encoding e)) - 1) 127); [lia|eexists; reflexivity]. }
  assert (body_fits e = true) as Hf by (unfold wf_entry in He; apply andb_true_iff in He; tauto).
  unfold body_fits in Hf. destruct (entry_body e) as [b|]; [|discriminate].
  apply N.ltb_lt in Hf. rewrite pack24_small by exact Hf. eexists; reflexivity.
Qed.

(* C18_roundtrip (either back end) *)
Theorem roundtrip_bk : forall bk items, wf_cm items = true ->
  exists bs, cm_encode_bk bk items = Some bs /\ cm_decode bs = Some items.
Proof.
  intros bk items Hw. destruct (wf_encodes items bk Hw) as (bs & E). exists bs. split; [exact E|].
  unfold cm_decode. apply (decode_encode_fuel items bk); auto.
Qed.

Theorem roundtrip : forall items, wf_cm items = true ->
  exists bs, cm_encode items = Some bs /\ cm_decode bs = Some items.
Proof. apply roundtrip_bk. Qed.

(* the two back ends produce the same bytes on well-formed entries *)
Theorem backend_independent : forall items, wf_cm items = true -> cm_encode_bk Native items = cm_encode_bk Cbit items.
Proof.
  induction items as [|e r IH]; intro Hw; [reflexivity|].
  cbn [wf_cm forallb] in Hw. apply andb_true_iff in Hw. destruct Hw as [He Hr].
  cbn [cm_encode_bk]. rewrite (IH Hr).
  assert (enc_entry Native e = enc_entry Cbit e) as ->; [|reflexivity]. unfold enc_entry.
  destruct (ser_wk mime_table (entry_encoding e)) as [h|]; [|reflexivity].
  assert (body_fits e = true) as Hf by (unfold wf_entry in He; apply andb_true_iff in He; tauto).
  unfold body_fits in Hf. destruct (entry_body e) as [b|]; [|reflexivity].
  apply N.ltb_lt in Hf. rewrite !pack24_small by exact Hf. reflexivity.
Qed.

(* C18_reencode *)
Theorem reencode : forall bk items bs, cm_encode_bk bk items = Some bs -> wf_cm items = true ->
  forall items', cm_decode bs = Some items' -> cm_encode_bk bk items' = Some bs.
Proof.
  intros bk items bs E Hw items' D. destruct (roundtrip_bk bk items Hw) as (bs' & E' & D').
  rewrite E in E'. injection E' as <-. rewrite D in D'. injection D' as ->. exact E.
Qed.

(* ------------------------------------------------------------------------------------------------ *)
(* Part J: the decoder is total: fuel = length suffices, more fuel changes nothing, and cm_decode satisfies the
   loop equation of CompositeMetadata.parse without any fuel *)

Lemma get_be_length k buf v rest : get_be k buf = Some (v, rest) -> (length rest + k = length buf)%nat.
Proof.
  intro E. apply get_be_some in E. destruct E as [E _]. rewrite E. rewrite app_length, be_length. lia.
Qed.

Lemma decode_fuel2 : forall f1 f2 buf, (length buf <= f1)%nat -> (length buf <= f2)%nat ->
  cm_decode_fuel f1 buf = cm_decode_fuel f2 buf.
Proof.
  induction f1 as [|f1 IH]; intros f2 buf H1 H2.
  - destruct buf; [|cbn in H1; lia]. destruct f2; reflexivity.
  - destruct buf as [|b r]; [destruct f2; reflexivity|].
    destruct f2 as [|f2]; [cbn in H2; lia|].
    rewrite !cm_decode_fuel_step by discriminate.
    destruct (parse_wk mime_name_of_id (b :: r)) as [[enc off]|]; [|reflexivity].
    destruct (get_be 3 (dropN (b :: r) off)) as [[len r2]|] eqn:Eg; [|reflexivity].
    destruct (parse_item enc (takeN r2 len)); [|reflexivity].
    apply get_be_length in Eg. rewrite dropN_length in Eg.
    rewrite (IH f2 (dropN r2 len)); [reflexivity| |]; rewrite dropN_length; lia.
Qed.

Theorem decode_total : forall bs f, (length bs <= f)%nat -> cm_decode_fuel f bs = cm_decode bs.
Proof. intros bs f H. unfold cm_decode. apply decode_fuel2; lia. Qed.

Theorem decode_unfold : forall buf, cm_decode buf =
  match buf with
  | [] => Some []
  | _ =>
      match parse_wk mime_name_of_id buf with
      | None => None
      | Some (enc, off) =>
          match get_be 3 (dropN buf off) with
          | None => None
          | Some (len, r2) =>
              match parse_item enc (takeN r2 len) with
              | None => None
              | Some e => match cm_decode (dropN r2 len) with Some es => Some (e :: es) | None => None end
              end
          end
      end
  end.
Proof.
  intros [|b r]; [reflexivity|]. unfold cm_decode at 1. cbn [length].
  rewrite cm_decode_fuel_step by discriminate.
  destruct (parse_wk mime_name_of_id (b :: r)) as [[enc off]|]; [|reflexivity].
  destruct (get_be 3 (dropN (b :: r) off)) as [[len r2]|] eqn:Eg; [|reflexivity].
  destruct (parse_item enc (takeN r2 len)); [|reflexivity].
  apply get_be_length in Eg. rewrite dropN_length in Eg. cbn [length] in Eg.
  rewrite decode_total; [reflexivity|]. rewrite dropN_length. lia.
Qed.

(* ------------------------------------------------------------------------------------------------ *)
(* Part K: over-long names and tags are rejected: no bytes are produced *)

Lemma ser_wk_overlong n : overlong_name n = true -> ser_wk mime_table n = None.
Proof.
  unfold overlong_name, ser_wk, mime_id_of_name, ser_128max. destruct (dict_get mime_table n); [discriminate|].
  intro H. apply N.ltb_lt in H. unfold lenN in H.
  destruct (Z.gtb_spec (Z.of_nat (length n) - 1) 127); [reflexivity|lia].
Qed.

Lemma ser_mimes_overlong : forall encs, existsb overlong_name encs = true -> ser_mimes encs = None.
Proof.
  induction encs as [|e r IH]; [discriminate|]. cbn [existsb ser_mimes]. intro H.
  apply orb_true_iff in H. destruct H as [H|H].
  - rewrite (ser_wk_overlong _ H). reflexivity.
  - rewrite (IH H). destruct (ser_wk mime_table e); reflexivity.
Qed.

Lemma ser_tags_overlong : forall tags, existsb (fun t => 255 <? lenN t) tags = true -> ser_tags tags = None.
Proof.
  induction tags as [|t r IH]; [discriminate|]. cbn [existsb ser_tags]. intro H.
  apply orb_true_iff in H. destruct H as [H|H].
  - rewrite H. reflexivity.
  - rewrite (IH H). destruct (255 <? lenN t); reflexivity.
Qed.

Lemma enc_entry_overlong bk e : has_overlong e = true -> enc_entry bk e = None.
Proof.
  unfold enc_entry. destruct e as [enc c|tags|enc|encs|a]; cbn [has_overlong entry_encoding entry_body]; intro H.
  - rewrite (ser_wk_overlong _ H). reflexivity.
  - rewrite (ser_tags_overlong _ H). destruct (ser_wk mime_table (ctor_encoding 1)); reflexivity.
  - rewrite (ser_wk_overlong _ H). destruct (ser_wk mime_table (ctor_encoding 2)); reflexivity.
  - rewrite (ser_mimes_overlong _ H). destruct (ser_wk mime_table (ctor_encoding 3)); reflexivity.
  - discriminate.
Qed.

(* C18_rejects_overlong *)
Theorem rejects_overlong : forall bk items e, In e items -> has_overlong e = true -> cm_encode_bk bk items = None.
Proof.
  induction items as [|x r IH]; intros e Hin Ho; [destruct Hin|].
  cbn [cm_encode_bk]. destruct Hin as [->|Hin].
  - rewrite (enc_entry_overlong bk e Ho). reflexivity.
  - rewrite (IH e Hin Ho). destruct (enc_entry bk x); reflexivity.
Qed.

(* ------------------------------------------------------------------------------------------------ *)
(* Part M: every hypothesis of wf_cm is needed *)

(* custom name of 0 bytes: header byte (-1) & 0x7f = 127 announces 128 name bytes *)
Example ex_empty_name : rt_fails [EItem [] [x01]].
Proof. right. eexists. split; [vm_compute; reflexivity|vm_compute; discriminate]. Qed.
(* custom name of 129 bytes: rejected *)
Example ex_name_129 : rt_fails [EItem (repeat x61 129) [x01]].
Proof. left. vm_compute. reflexivity. Qed.
(* the reserved rows: ids -2 / -1 are written as 0xFE / 0xFF and come back as ROUTING / COMPOSITE_METADATA *)
Example ex_reserved_1 : rt_fails [EItem (ascii "UNPARSEABLE_MIME_TYPE_DO_NOT_USE") [x01; x61]].
Proof. right. eexists. split; [vm_compute; reflexivity|vm_compute; discriminate]. Qed.
Example ex_reserved_2 : rt_fails [EDataMime (ascii "UNKNOWN_YET_RESERVED_DO_NOT_USE")].
Proof. right. eexists. split; [vm_compute; reflexivity|vm_compute; discriminate]. Qed.
(* a generic item carrying the MIME type of a typed entry is decoded as that typed entry *)
Example ex_typed_name : rt_fails [EItem (ascii "message/x.rsocket.routing.v0") [x01; x61]].
Proof. right. eexists. split; [vm_compute; reflexivity|vm_compute; discriminate]. Qed.
Example ex_typed_name_raises : exists bs,
  cm_encode [EItem (ascii "message/x.rsocket.authentication.v0") []] = Some bs /\ cm_decode bs = None.
Proof. eexists. split; vm_compute; reflexivity. Qed.
(* a tag of 256 bytes: rejected *)
Example ex_tag_256 : rt_fails [ERouting [repeat x61 256]].
Proof. left. vm_compute. reflexivity. Qed.
(* a user name of 2^16 bytes: the 16-bit length wraps to 0, everything comes back as the password *)
Lemma username_wraps :
  match cm_encode [EAuth (ASimple user_65536 [x62])] with
  | Some bs => match cm_decode bs with
               | Some [EAuth (ASimple u p)] => lenN u = 0 /\ lenN p = 65537
               | _ => False
               end
  | None => False
  end.
Proof. vm_compute. split; reflexivity. Qed.
Example ex_username_65536 : rt_fails [EAuth (ASimple user_65536 [x62])].
Proof.
  pose proof username_wraps as H. right.
  destruct (cm_encode [EAuth (ASimple user_65536 [x62])]) as [bs|]; [|contradiction].
  exists bs. split; [reflexivity|]. intro D. rewrite D in H. destruct H as [H _].
  vm_compute in H. discriminate H.
Qed.

(* an entry body of 2^24 bytes: cbitstruct refuses; the native struct back end writes length 0 and the body is
   then parsed as further entries *)
Lemma takeN_0 l : takeN l 0 = [].
Proof. destruct l; reflexivity. Qed.

Example ex_body_2p24 : forall c, lenN c = 16777216 ->
  cm_encode_bk Cbit [EItem [x61] c] = None /\
  exists bs, cm_encode_bk Native [EItem [x61] c] = Some bs /\ cm_decode bs <> Some [EItem [x61] c].
Proof.
  intros c Hc.
  assert (Hh : ser_wk mime_table [x61] = Some [x00; x61]) by (vm_compute; reflexivity).
  assert (Hn : wf_name [x61] = true) by (vm_compute; reflexivity).
  assert (Hk : typed_kind [x61] = None) by (vm_compute; reflexivity).
  split.
  - cbn [cm_encode_bk]. unfold enc_entry. cbn [entry_encoding entry_body]. rewrite Hh. unfold pack24. rewrite Hc.
    reflexivity.
  - exists ([x00; x61] ++ be 3 0 ++ c ++ []). split.
    + cbn [cm_encode_bk]. unfold enc_entry. cbn [entry_encoding entry_body]. rewrite Hh. unfold pack24. rewrite Hc.
      change (16777216 <? 4294967296) with true. cbv iota.
      change (be 3 16777216) with (be 3 0). rewrite <- !app_assoc. reflexivity.
    + rewrite decode_unfold. change ([x00; x61] ++ ?r) with (x00 :: ([x61] ++ r)) at 1. cbv iota.
      rewrite (wk_roundtrip [x61] [x00; x61] _ Hn Hh). rewrite dropN_app_exact.
      rewrite get_be_app by (rewrite pow256_3; lia). rewrite takeN_0.
      unfold parse_item. rewrite Hk.
      destruct (cm_decode (dropN (c ++ []) 0)); [|discriminate].
      intro E. apply Some_inj in E. injection E as E _. subst c. discriminate Hc.
Qed.

(* 7-bit ids as the decoder sees them *)
Lemma mime_lookup_inverse_N n i : mime_name_of_id i = Some n <-> mime_id_of_name n = Some (Z.of_N i).
Proof.
  destruct tables_bijective as [(_ & _ & _ & _ & _ & H) _]. unfold mime_name_of_id, mime_id_of_name.
  symmetry. apply H.
Qed.

Lemma hypotheses_needed :
  rt_fails [EItem [] [x01]] /\
  rt_fails [EItem (repeat x61 129) [x01]] /\
  rt_fails [EItem (ascii "UNPARSEABLE_MIME_TYPE_DO_NOT_USE") [x01; x61]] /\
  rt_fails [EDataMime (ascii "UNKNOWN_YET_RESERVED_DO_NOT_USE")] /\
  rt_fails [EItem (ascii "message/x.rsocket.routing.v0") [x01; x61]] /\
  (exists bs, cm_encode [EItem (ascii "message/x.rsocket.authentication.v0") []] = Some bs /\ cm_decode bs = None) /\
  rt_fails [ERouting [repeat x61 256]] /\
  rt_fails [EAuth (ASimple user_65536 [x62])] /\
  (forall c, lenN c = 16777216 ->
     cm_encode_bk Cbit [EItem [x61] c] = None /\
     exists bs, cm_encode_bk Native [EItem [x61] c] = Some bs /\ cm_decode bs <> Some [EItem [x61] c]).
Proof.
  repeat split;
    [exact ex_empty_name|exact ex_name_129|exact ex_reserved_1|exact ex_reserved_2|exact ex_typed_name|
     exact ex_typed_name_raises|exact ex_tag_256|exact ex_username_65536| | ]; apply ex_body_2p24; assumption.
Qed.

(* Decode-then-encode reproduces the bytes only for bytes that encode produced (theorem reencode): on ARBITRARY input
   the decoder is not injective.  Witnesses: (1) a table name spelled out as a custom name (0x07 "text/css") is
   re-encoded as its id byte 0x9E; (2) a last entry that announces 5 body bytes but carries 2 is accepted and
   re-encoded with length 2. *)
Lemma reencode_arbitrary_refuted :
  (exists bs items, cm_decode bs = Some items /\ exists bs', cm_encode items = Some bs' /\ bs' <> bs /\
                    bs = x07 :: ascii "text/css" ++ [x00; x00; x01; x61]) /\
  (exists bs items, cm_decode bs = Some items /\ exists bs', cm_encode items = Some bs' /\ bs' <> bs /\
                    bs = [x00; x61; x00; x00; x05; x62; x63]).
Proof.
  split.
  - eexists. eexists. split; [|eexists; split; [|split; [|reflexivity]]].
    + vm_compute. reflexivity.
    + vm_compute. reflexivity.
    + vm_compute. discriminate.
  - eexists. eexists. split; [|eexists; split; [|split; [|reflexivity]]].
    + vm_compute. reflexivity.
    + vm_compute. reflexivity.
    + vm_compute. discriminate.
Qed.
