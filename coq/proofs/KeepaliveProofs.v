From Coq Require Import ZArith NArith List Bool Lia ZifyBool Init.Byte.
From RSV Require Import gen.GenConst lib.Bytes model.Frame model.Keepalive proofs.FrameProofs.
Import ListNotations.
Open Scope Z_scope.

(* ---------- echo ---------- *)
Lemma echo_spec f :
  match f with
  | FKeepalive sid ign true pos d => ka_echo f = [FKeepalive sid ign false pos d]
  | _ => ka_echo f = []
  end.
Proof. destruct f; try reflexivity. destruct respond; reflexivity. Qed.

Lemma echo_at_most_one f : (length (ka_echo f) <= 1)%nat.
Proof. destruct f; cbn; try lia. destruct respond; cbn; lia. Qed.

(* on the wire: the peer decodes the echo as a KEEPALIVE without the respond flag, same position, same data *)
Lemma echo_on_wire bk sid ign pos d :
  (sid < 2 ^ 31)%N -> (pos < 2 ^ 63)%N ->
  map (fun g => decode bk (encode g)) (ka_echo (FKeepalive sid ign true pos d)) = [DOk (FKeepalive sid ign false pos d)].
Proof.
  intros Hs Hp. cbn [ka_echo map]. rewrite decode_encode; [reflexivity|].
  unfold wf. cbn [fsid fmd]. apply andb_true_iff. split; [apply andb_true_iff; split|].
  - apply N.ltb_lt. exact Hs.
  - reflexivity.
  - apply N.ltb_lt. exact Hp.
Qed.

(* ---------- periodic emission ---------- *)
Lemma send_times_exact : forall n t0 P,
  send_times t0 P (repeat 0 n) = map (fun k => t0 + P * Z.of_nat k) (seq 1 n).
Proof.
  induction n as [|n IH]; intros t0 P; [reflexivity|].
  cbn [repeat send_times]. rewrite IH. cbn [seq map]. f_equal; [lia|].
  rewrite <- (seq_shift n 1), map_map. apply map_ext. intro k. lia.
Qed.

(* ---------- detector ---------- *)
Fixpoint next_arrival (evs : list ev) : option Z :=
  match evs with
  | [] => None
  | Arrive t :: _ => Some t
  | Check _ :: r => next_arrival r
  end.

(* keepalives keep arriving at intervals no longer than L, and every check happens while they still do *)
Fixpoint covered (L last : Z) (evs : list ev) : Prop :=
  match evs with
  | [] => True
  | Arrive t :: r => t - last <= L /\ covered L t r
  | Check t :: r => (exists a, next_arrival r = Some a /\ t <= a /\ a - last <= L) /\ covered L last r
  end.

Theorem no_false_timeout : forall evs L last, covered L last evs -> detect L last evs = [].
Proof.
  induction evs as [|e r IH]; intros L last H; [reflexivity|].
  destruct e as [t|t]; cbn [covered detect] in *.
  - destruct H as [_ H]. apply IH. exact H.
  - destruct H as [(a & _ & Ht & Ha) H].
    destruct (Z.ltb_spec L (t - last)) as [Hlt|_]; [lia|]. apply IH. exact H.
Qed.

(* silence: no arrival later than s before the check c *)
Fixpoint silent_until (s c : Z) (evs : list ev) : Prop :=
  match evs with
  | [] => True
  | Arrive t :: r => t <= s /\ silent_until s c r
  | Check t :: r => if t =? c then True else silent_until s c r
  end.

Theorem detects : forall evs L last s c,
  last <= s -> L < c - s -> In (Check c) evs -> silent_until s c evs -> In c (detect L last evs).
Proof.
  induction evs as [|e r IH]; intros L last s c Hl Hc Hin Hs; [destruct Hin|].
  destruct e as [t|t]; cbn [detect silent_until] in *.
  - destruct Hin as [Hin|Hin]; [discriminate|]. destruct Hs as [Ht Hs]. apply (IH L t s c); assumption.
  - destruct (Z.eqb_spec t c) as [->|Hne].
    + destruct (Z.ltb_spec L (c - last)) as [_|Hge]; [left; reflexivity|lia].
    + destruct Hin as [Hin|Hin]; [congruence|].
      destruct (L <? t - last); [right|]; apply (IH L last s c); assumption.
Qed.

(* the check instants: with timer lateness in [0, delta], some check falls in (s + L, s + 2L + delta] *)
Lemma check_times_ge : forall ds t0 L, 0 <= L -> Forall (fun d => 0 <= d) ds ->
  Forall (fun c => t0 <= c) (check_times t0 L ds).
Proof.
  induction ds as [|d r IH]; intros t0 L HL HF; [constructor|].
  inversion HF; subst. cbn [check_times]. constructor; [lia|].
  eapply Forall_impl; [|apply IH; assumption]. cbn. intros; lia.
Qed.

Theorem check_within : forall ds t0 L delta s,
  0 < L -> Forall (fun d => 0 <= d <= delta) ds -> t0 <= s ->
  (exists c, In c (check_times t0 L ds) /\ s + L < c) ->
  exists c, In c (check_times t0 L ds) /\ s + L < c <= s + 2 * L + delta.
Proof.
  induction ds as [|d r IH]; intros t0 L delta s HL HF Hs (c & Hin & Hc); [destruct Hin|].
  inversion HF as [|? ? Hd HF']; subst. cbn [check_times] in *.
  set (c0 := t0 + L + d) in *.
  destruct (Z.ltb_spec (s + L) c0) as [Hlt|Hge].
  - exists c0. split; [left; reflexivity|]. unfold c0. lia.
  - destruct Hin as [<-|Hin]; [lia|].
    destruct (Z.leb_spec c0 s) as [Hle|Hgt].
    + destruct (IH c0 L delta s HL HF' Hle) as (c' & Hin' & Hb); [exists c; split; assumption|].
      exists c'. split; [right; exact Hin'|exact Hb].
    + (* s < c0 <= s + L: the next check is at most c0 + L + delta *)
      destruct r as [|d1 r']; [destruct Hin|]. inversion HF' as [|? ? Hd1 _]; subst.
      cbn [check_times] in *. set (c1 := c0 + L + d1) in *.
      exists c1. split; [right; left; reflexivity|]. unfold c1. lia.
Qed.

(* non-vacuity *)
Example detector_example :
  timeouts 2000000 0 [500000; 1000000; 1500000] [0; 0; 0; 0] = [4000000; 6000000; 8000000].
Proof. vm_compute. reflexivity. Qed.
