From Coq Require Import ZArith NArith List Bool Lia ZifyBool ZifyN Init.Byte.
From RSV Require Import gen.GenConst lib.Bytes model.Frame model.Fragmenter model.SendQueue
     proofs.FrameProofs proofs.FragmenterProofs.
Import ListNotations.
Open Scope N_scope.

Definition on (k : N) (l : list frame) : list frame := filter (fun f => fsid f =? k) l.
Definition srcs_on (k : N) (q : squeue) : squeue := filter (fun s => s_sid s =? k) q.
Definition pending (q : squeue) (k : N) : list frame := concat (map s_frags (srcs_on k q)).

Lemma on_cons k f r : on k (f :: r) = if fsid f =? k then f :: on k r else on k r.
Proof. reflexivity. Qed.
Lemma on_app k a b : on k (a ++ b) = on k a ++ on k b.
Proof. apply filter_app. Qed.

Definition size_ok (size : option N) : Prop :=
  match size with Some sz => MINIMUM_FRAGMENT_SIZE_BYTES <= sz | None => True end.

Section Cfg.
  Variable size : option N.
  Variable lenreq : bool.
  Hypothesis Hsize : size_ok size.
  Notation emissions := (emissions size lenreq).
  Notation enq := (enq size lenreq).

  Lemma emissions_spec f : emissions f <> [] /\ Forall (fun g => fsid g = fsid f) (emissions f).
  Proof.
    unfold SendQueue.emissions. destruct (is_fragmentable f) eqn:Ef.
    - destruct size as [sz|].
      + destruct (frame_shape f sz lenreq Ef Hsize) as (Hne & _ & Hall & _). split; [exact Hne|].
        eapply Forall_impl; [|exact Hall]. intros g [H _]. exact H.
      + cbn [frame_fragments]. split; [discriminate|]. constructor; [|constructor].
        destruct (mk_fields f Ef true None (fmd f) (fdata f)) as (_ & _ & H & _). exact H.
    - split; [discriminate|]. constructor; [reflexivity|constructor].
  Qed.

  (* queued sources have something to emit, all of it on their own stream *)
  Definition Q (q : squeue) : Prop :=
    Forall (fun s => s_frags s <> [] /\ Forall (fun g => fsid g = s_sid s) (s_frags s)) q.

  Lemma srcs_on_cons k s r : srcs_on k (s :: r) = if s_sid s =? k then s :: srcs_on k r else srcs_on k r.
  Proof. reflexivity. Qed.

  Lemma srcs_on_reinsert k : forall q s,
    srcs_on k (reinsert q s) = if s_sid s =? k then s :: srcs_on k q else srcs_on k q.
  Proof.
    induction q as [|x r IH]; intro s; cbn [reinsert].
    - cbn. destruct (s_sid s =? k); reflexivity.
    - destruct (N.eqb_spec (s_sid x) (s_sid s)) as [E|E].
      + cbn [srcs_on filter]. destruct (N.eqb_spec (s_sid s) k); reflexivity.
      + cbn [srcs_on filter]. fold (srcs_on k (reinsert r s)). rewrite IH. fold (srcs_on k r).
        destruct (N.eqb_spec (s_sid s) k) as [Es|Es]; [|reflexivity].
        destruct (N.eqb_spec (s_sid x) k); [congruence|reflexivity].
  Qed.

  Lemma Q_reinsert q s : Q q -> (s_frags s <> [] /\ Forall (fun g => fsid g = s_sid s) (s_frags s)) -> Q (reinsert q s).
  Proof.
    intros HQ Hs. induction q as [|x r IH]; cbn [reinsert]; [constructor; [exact Hs|constructor]|].
    inversion HQ; subst. destruct (s_sid x =? s_sid s).
    - constructor; [exact Hs|]. exact HQ.
    - constructor; [assumption|]. apply IH. assumption.
  Qed.

  Lemma send_step_spec qq x q' : Q qq -> send_step qq = Some (x, q') ->
    Q q' /\ pending qq (fsid x) = x :: pending q' (fsid x) /\
    forall k, k <> fsid x -> pending q' k = pending qq k.
  Proof.
    intros HQ E. unfold send_step, send_step_with in E. destruct qq as [|s r]; [discriminate|].
    inversion HQ as [|? ? [Hne Hsid] HQr]; subst.
    destruct (s_frags s) as [|y rest] eqn:Ef; [congruence|].
    inversion Hsid as [|? ? Hy Hrest]; subst.
    destruct rest as [|z rest'].
    - injection E as <- <-. split; [exact HQr|]. unfold pending. rewrite !srcs_on_cons.
      rewrite Hy, N.eqb_refl. cbn [map concat]. rewrite Ef. split; [reflexivity|].
      intros k Hk. rewrite srcs_on_cons. destruct (N.eqb_spec (s_sid s) k); [congruence|reflexivity].
    - injection E as <- <-.
      set (s' := {| s_sid := s_sid s; s_frags := z :: rest' |}).
      assert (s_frags s' <> [] /\ Forall (fun g => fsid g = s_sid s') (s_frags s')) as Hs' by (cbn; split; [discriminate|exact Hrest]).
      split; [apply Q_reinsert; assumption|]. unfold pending. split.
      + rewrite srcs_on_reinsert, srcs_on_cons. cbn [s_sid s']. rewrite Hy, N.eqb_refl.
        cbn [map concat s_frags]. rewrite Ef. reflexivity.
      + intros k Hk. rewrite srcs_on_reinsert, srcs_on_cons. cbn [s_sid s'].
        destruct (N.eqb_spec (s_sid s) k); [congruence|reflexivity].
  Qed.

  Lemma enq_spec qq f : Q qq ->
    Q (enq qq f) /\ forall k, pending (enq qq f) k = pending qq k ++ (if fsid f =? k then emissions f else []).
  Proof.
    intro HQ. destruct (emissions_spec f) as [Hne Hall]. split.
    - unfold SendQueue.enq, Q. apply Forall_app. split; [exact HQ|]. constructor; [|constructor]. cbn. split; assumption.
    - intro k. unfold pending, srcs_on, SendQueue.enq. rewrite filter_app, map_app, concat_app. cbn [filter mk_src s_sid].
      destruct (fsid f =? k); cbn; rewrite ?app_nil_r; reflexivity.
  Qed.

  Fixpoint enqueued (ls : list qlabel) : list frame :=
    match ls with [] => [] | QEnq f :: r => f :: enqueued r | _ :: r => enqueued r end.

  Definition no_prio (ls : list qlabel) : Prop := Forall (fun l => match l with QPrio _ => False | _ => True end) ls.

  (* per stream: what has been written followed by what is still to be written is exactly the fragments
     of the frames queued for that stream, frame after frame, in the order they were queued *)
  Lemma per_stream_gen : forall ls s, no_prio ls -> Q (q s) ->
    let s' := fold_left (qstep_with reinsert size lenreq) ls s in
    Q (q s') /\ forall k, on k (wire s') ++ pending (q s') k =
                          on k (wire s) ++ pending (q s) k ++ concat (map emissions (on k (enqueued ls))).
  Proof.
    induction ls as [|l r IH]; intros s Hn HQ; cbn [fold_left enqueued].
    - split; [exact HQ|]. intro k. cbn. rewrite app_nil_r. reflexivity.
    - inversion Hn as [|? ? Hl Hn']; subst. destruct l as [f|f|]; [|destruct Hl|].
      + cbn [qstep_with]. destruct (enq_spec (q s) f HQ) as [HQ2 He].
        destruct (IH {| q := enq (q s) f; wire := wire s |} Hn' HQ2) as [I1 I2]. split; [exact I1|].
        intro k. rewrite I2. cbn [q SendQueue.wire]. rewrite He, on_cons.
        destruct (fsid f =? k); cbn [map concat]; rewrite <- ?app_assoc; rewrite ?app_nil_r; reflexivity.
      + cbn [qstep_with]. destruct (send_step_with reinsert (q s)) as [[x q']|] eqn:Es.
        * destruct (send_step_spec (q s) x q' HQ Es) as (HQ2 & P1 & P2).
          destruct (IH {| q := q'; wire := wire s ++ [x] |} Hn' HQ2) as [I1 I2]. split; [exact I1|].
          intro k. rewrite I2. cbn [q SendQueue.wire]. rewrite on_app, on_cons.
          destruct (N.eqb_spec (fsid x) k) as [<-|Hk].
          -- rewrite P1. cbn [on filter]. rewrite <- !app_assoc. reflexivity.
          -- rewrite (P2 k) by congruence. cbn [on filter]. rewrite app_nil_r. reflexivity.
        * apply IH; assumption.
  Qed.

  Theorem per_stream ls k : no_prio ls ->
    let s := qrun size lenreq ls in
    on k (wire s) ++ pending (q s) k = concat (map emissions (on k (enqueued ls))).
  Proof.
    intro Hn. destruct (per_stream_gen ls {| q := []; wire := [] |} Hn (Forall_nil _)) as [_ H]. exact (H k).
  Qed.

  (* the priority frame (SETUP) goes ahead of everything queued *)
  Lemma prio_spec qq f k : pending (enq_priority size lenreq qq f) k = (if fsid f =? k then emissions f else []) ++ pending qq k.
  Proof. unfold pending, srcs_on, enq_priority. cbn [filter mk_src s_sid]. destruct (fsid f =? k); reflexivity. Qed.
End Cfg.

(* ---------- receiver side: reassembly never mixes streams ---------- *)
Lemma cache_get_remove c k k' : cache_get (cache_remove c k) k' = if k =? k' then None else cache_get c k'.
Proof.
  unfold cache_remove. induction c as [|[a v] r IH]; cbn [filter cache_get fst]; [destruct (k =? k'); reflexivity|].
  destruct (N.eqb_spec a k) as [->|Hak]; cbn [negb].
  - rewrite IH. destruct (N.eqb_spec k k'); reflexivity.
  - cbn [cache_get]. rewrite IH. destruct (N.eqb_spec a k') as [->|]; [|reflexivity].
    destruct (N.eqb_spec k k'); [congruence|reflexivity].
Qed.

Lemma cache_get_set c k v k' : cache_get (cache_set c k v) k' = if k =? k' then Some v else cache_get c k'.
Proof. unfold cache_set. cbn [cache_get]. rewrite cache_get_remove. destruct (k =? k'); reflexivity. Qed.

(* appending a frame of stream (fsid f) reads and writes only that stream's entry *)
Theorem cache_append_local c f k : k <> fsid f -> cache_get (fst (cache_append c f)) k = cache_get c k.
Proof.
  intro Hk. unfold cache_append, builder.
  destruct (ffollows f).
  - destruct (cache_get c (fsid f)) as [cur|].
    + destruct (is_payload f); cbn [fst]; [|reflexivity]. rewrite cache_get_set.
      destruct (N.eqb_spec (fsid f) k); [congruence|reflexivity].
    + cbn [fst]. rewrite cache_get_set. destruct (N.eqb_spec (fsid f) k); [congruence|reflexivity].
  - destruct (cache_get c (fsid f)) as [cur|]; [|reflexivity].
    destruct (is_payload f); cbn [fst]; [|reflexivity]. rewrite cache_get_remove.
    destruct (N.eqb_spec (fsid f) k); [congruence|reflexivity].
Qed.

Theorem cache_append_determined c1 c2 f : cache_get c1 (fsid f) = cache_get c2 (fsid f) ->
  snd (cache_append c1 f) = snd (cache_append c2 f) /\
  cache_get (fst (cache_append c1 f)) (fsid f) = cache_get (fst (cache_append c2 f)) (fsid f).
Proof.
  intro H. unfold cache_append, builder. rewrite H.
  destruct (ffollows f).
  - destruct (cache_get c2 (fsid f)) as [cur|] eqn:E2.
    + destruct (is_payload f); cbn [fst snd]; [|cbn [fst snd]; split; [reflexivity|congruence]]. rewrite !cache_get_set, N.eqb_refl. split; reflexivity.
    + cbn [fst snd]. rewrite !cache_get_set, N.eqb_refl. split; reflexivity.
  - destruct (cache_get c2 (fsid f)) as [cur|] eqn:E2; [|cbn [fst snd]; split; [reflexivity|congruence]].
    destruct (is_payload f); cbn [fst snd]; [|cbn [fst snd]; split; [reflexivity|congruence]]. rewrite !cache_get_remove, N.eqb_refl. split; reflexivity.
Qed.

(* feeding any interleaving: the answers given to the frames of stream k are those of feeding stream k alone *)
Fixpoint answers_on (k : N) (c : cache) (fs : list frame) : list ares :=
  match fs with
  | [] => []
  | f :: r => let (c', a) := cache_append c f in
              if fsid f =? k then a :: answers_on k c' r else answers_on k c' r
  end.

Theorem interleaving_irrelevant k : forall fs c1 c2, cache_get c1 k = cache_get c2 k ->
  answers_on k c1 fs = snd (cache_feed c2 (on k fs)).
Proof.
  induction fs as [|f r IH]; intros c1 c2 H; [reflexivity|].
  cbn [answers_on on filter]. destruct (N.eqb_spec (fsid f) k) as [E|E].
  - subst k. destruct (cache_append_determined c1 c2 f H) as [Ha Hg].
    fold (on (fsid f) r). rewrite cache_feed_cons.
    destruct (cache_append c1 f) as [c1' a1]. destruct (cache_append c2 f) as [c2' a2]. cbn [fst snd] in *. subst a2.
    rewrite (IH c1' c2' Hg). destruct (cache_feed c2' (on (fsid f) r)). reflexivity.
  - fold (on k r). pose proof (cache_append_local c1 f k (fun X => E (eq_sym X))) as Hl.
    destruct (cache_append c1 f) as [c1' a1]. cbn [fst] in Hl. apply IH. congruence.
Qed.

(* ---------- the behaviour before the fix breaks the per-stream order (F4) ---------- *)
Definition f4_a : frame := FPayload 1 false false false true [] (pat 1 0 100).
Definition f4_b : frame := FPayload 1 false false true false [] [].
Definition f4_run : qstate :=
  fold_left (qstep_with rotate_back (Some 64) false) [QEnq f4_a; QEnq f4_b; QSend; QSend; QSend] {| q := []; wire := [] |}.

Lemma rotate_back_refuted :
  map (fun g => (ffollows g, lenN (fdata g))) (SendQueue.wire f4_run) = [(true, 58); (false, 0); (false, 42)].
Proof. vm_compute. reflexivity. Qed.

Example interleave_example :
  let s := qrun (Some 64) false [QEnq f4_a; QEnq (FPayload 3 false false false true [] (pat 2 0 70)); QEnq f4_b; QSend; QSend; QSend; QSend; QSend] in
  map (fun g => (fsid g, ffollows g, lenN (fdata g))) (SendQueue.wire s) = [(1, true, 58); (3, true, 58); (1, false, 42); (1, false, 0); (3, false, 12)].
Proof. vm_compute. reflexivity. Qed.
