(* C01: composition of the layer theorems — sender queue (C05), fragmenter and reassembly (C03), codec (C02),
   byte-stream parser (C04) — into one end-to-end statement about model/Pipeline.v. *)
From Coq Require Import Arith NArith List Bool Lia Init.Byte.
From RSV Require Import gen.GenConst lib.Bytes model.Frame model.Parser model.Fragmenter model.SendQueue model.Pipeline
     proofs.FrameProofs proofs.FragmenterProofs proofs.ParserProofs proofs.SendQueueProofs proofs.EndpointProofs.
Import ListNotations.
Open Scope N_scope.

(* what "delivered intact" means for one frame: a fragmentable frame comes out with the same type, stream, flags,
   request-n, metadata and data (its FOLLOWS bit is reassembly residue nothing reads); any other frame comes out as it is *)
Definition delivered_as (f R : frame) : Prop :=
  if is_fragmentable f then
    ftype R = ftype f /\ fsid R = fsid f /\ fign R = fign f /\ freqn R = freqn f /\
    fmd R = fmd f /\ fdata R = fdata f /\ fcomplete R = fcomplete f
  else R = f.

Lemma fragmentable_by_type f g : ftype f = ftype g -> is_fragmentable f = is_fragmentable g.
Proof. unfold is_fragmentable. intros ->. reflexivity. Qed.

Lemma norm_nonfrag f : is_fragmentable f = false -> norm f = f.
Proof. destruct f; try reflexivity. vm_compute. discriminate. Qed.

Lemma norm_sid f : fsid (norm f) = fsid f.
Proof. destruct f; reflexivity. Qed.

Lemma on_map_norm k l : on k (map norm l) = map norm (on k l).
Proof.
  induction l as [|x l IH]; [reflexivity|]. cbn [map]. rewrite !on_cons, norm_sid. destruct (fsid x =? k); cbn [map]; rewrite IH; reflexivity.
Qed.

(* ---------- rx ---------- *)
Lemma rx_cons c f r : rx c (f :: r) = let (c1, o1) := rx_step c f in let (c2, o2) := rx c1 r in (c2, o1 ++ o2).
Proof. reflexivity. Qed.

Lemma rx_app : forall a b c, rx c (a ++ b) = let (c1, o1) := rx c a in let (c2, o2) := rx c1 b in (c2, o1 ++ o2).
Proof.
  induction a as [|f a IH]; intros b c; cbn [app].
  - cbn [rx]. destruct (rx c b). reflexivity.
  - rewrite !rx_cons. destruct (rx_step c f) as [c1 o1]. rewrite IH. destruct (rx c1 a) as [c2 o2].
    destruct (rx c2 b) as [c3 o3]. rewrite app_assoc. reflexivity.
Qed.

Lemma rx_step_spec c f : CWF c ->
  CWF (fst (rx_step c f)) /\ Forall (fun g => fsid g = fsid f) (snd (rx_step c f)).
Proof.
  intro W. unfold rx_step. destruct (is_fragmentable f); [|split; [exact W|repeat constructor]].
  pose proof (cache_append_spec c f W) as [W' Hs]. destruct (cache_append c f) as [c' a]. cbn [fst snd] in *.
  destruct a; cbn [fst snd]; split; try exact W'; repeat constructor. exact Hs.
Qed.

Lemma rx_cwf : forall fs c, CWF c -> CWF (fst (rx c fs)).
Proof.
  induction fs as [|f r IH]; intros c W; [exact W|]. rewrite rx_cons.
  pose proof (rx_step_spec c f W) as [W1 _]. destruct (rx_step c f) as [c1 o1]. cbn [fst] in W1.
  specialize (IH c1 W1). destruct (rx c1 r) as [c2 o2]. exact IH.
Qed.

Lemma on_all k l : Forall (fun g => fsid g = k) l -> on k l = l.
Proof.
  induction 1 as [|x l Hx _ IH]; [reflexivity|]. rewrite on_cons, Hx, N.eqb_refl, IH. reflexivity.
Qed.
Lemma on_none k l : Forall (fun g => fsid g <> k) l -> on k l = [].
Proof.
  induction 1 as [|x l Hx _ IH]; [reflexivity|]. rewrite on_cons. destruct (N.eqb_spec (fsid x) k); [contradiction|exact IH].
Qed.

(* the receiver's answers on stream k depend only on the frames of stream k: whatever else is interleaved *)
Lemma rx_stream k : forall fs c1 c2, CWF c1 -> CWF c2 -> cache_get c1 k = cache_get c2 k ->
  on k (snd (rx c1 fs)) = snd (rx c2 (on k fs)) /\ cache_get (fst (rx c1 fs)) k = cache_get (fst (rx c2 (on k fs))) k.
Proof.
  induction fs as [|f r IH]; intros c1 c2 W1 W2 Hc; [split; [reflexivity|exact Hc]|].
  rewrite rx_cons, on_cons. pose proof (rx_step_spec c1 f W1) as [W1' S1].
  destruct (N.eqb_spec (fsid f) k) as [E|Hne].
  - rewrite rx_cons. pose proof (rx_step_spec c2 f W2) as [W2' S2].
    assert (snd (rx_step c1 f) = snd (rx_step c2 f) /\
            cache_get (fst (rx_step c1 f)) k = cache_get (fst (rx_step c2 f)) k) as [Eo Ec].
    { unfold rx_step. destruct (is_fragmentable f); [|split; [reflexivity|exact Hc]].
      pose proof (cache_append_determined c1 c2 f) as D. rewrite E in D. destruct (D Hc) as [Da Dc].
      destruct (cache_append c1 f) as [a1 r1], (cache_append c2 f) as [a2 r2]. cbn [fst snd] in *. subst r2.
      destruct r1; cbn [fst snd]; split; try reflexivity; exact Dc. }
    destruct (rx_step c1 f) as [d1 o1], (rx_step c2 f) as [d2 o2]. cbn [fst snd] in *. subst o2.
    specialize (IH d1 d2 W1' W2' Ec). destruct (rx d1 r) as [e1 p1], (rx d2 (on k r)) as [e2 p2]. cbn [fst snd] in *.
    destruct IH as [I1 I2]. split; [|exact I2]. rewrite on_app, I1. f_equal. apply on_all. rewrite <- E. exact S1.
  - assert (cache_get (fst (rx_step c1 f)) k = cache_get c1 k) as Ek.
    { unfold rx_step. destruct (is_fragmentable f); [|reflexivity].
      pose proof (cache_append_local c1 f k) as L. destruct (cache_append c1 f) as [a1 r1]. cbn [fst] in L.
      destruct r1; cbn [fst]; apply L; congruence. }
    destruct (rx_step c1 f) as [d1 o1]. cbn [fst snd] in *.
    specialize (IH d1 c2 W1' W2 (eq_trans Ek Hc)). destruct (rx d1 r) as [e1 p1]. cbn [fst snd] in *.
    destruct IH as [I1 I2]. split; [|exact I2]. rewrite on_app, I1.
    rewrite on_none; [reflexivity|]. eapply Forall_impl; [|exact S1]. cbn. intros g Hg. congruence.
Qed.

(* for fragmentable frames rx is the reassembly cache *)
Lemma rx_feed : forall fs c, Forall (fun g => is_fragmentable g = true) fs ->
  rx c fs = (fst (cache_feed c fs), flat_map (fun a => match a with AFrame g => [g] | _ => [] end) (snd (cache_feed c fs))).
Proof.
  induction fs as [|f r IH]; intros c H; [reflexivity|]. inversion H as [|? ? Hf Hr]; subst.
  rewrite rx_cons. cbn [cache_feed]. unfold rx_step. rewrite Hf. destruct (cache_append c f) as [c1 a].
  destruct a; cbv iota beta; rewrite (IH c1 Hr); destruct (cache_feed c1 r) as [c2 rs]; reflexivity.
Qed.

(* ---------- one queued frame through the fragmenter and the receiver ---------- *)
Lemma payload_type_fragmentable g : ftype g = FT_PAYLOAD -> is_fragmentable g = true.
Proof. unfold is_fragmentable. intros ->. vm_compute. reflexivity. Qed.

Lemma flat_absorbed {A} (l : list A) R :
  flat_map (fun a => match a with AFrame g => [g] | _ => [] end) (map (fun _ => AAbsorbed) l ++ [AFrame R]) = [R].
Proof. induction l as [|x l IH]; [reflexivity|exact IH]. Qed.

Lemma rx_one size lenreq f : size_ok size ->
  exists R, rx [] (map norm (emissions size lenreq f)) = ([], [R]) /\ delivered_as f R.
Proof.
  intro Hs. unfold emissions, delivered_as. destruct (is_fragmentable f) eqn:Hf.
  - destruct size as [sz|].
    + destruct (reassembly f sz lenreq Hf Hs) as (R & HR & Hfields).
      exists R. split; [|exact Hfields].
      destruct (frame_shape f sz lenreq Hf Hs) as (_ & Hhd & _ & _).
      rewrite rx_feed.
      * rewrite HR. cbn [fst snd]. rewrite flat_absorbed. reflexivity.
      * destruct (frame_fragments f (Some sz) lenreq) as [|g r] eqn:E; [constructor|].
        destruct (Hhd g r eq_refl) as (Ht & _ & Hp). cbn [map]. constructor.
        -- destruct (norm_fields g) as (_ & _ & _ & _ & _ & _ & _ & _ & N9 & _). rewrite N9.
           rewrite (fragmentable_by_type g f Ht). exact Hf.
        -- apply Forall_map. eapply Forall_impl; [|exact Hp]. intros h Hh. cbv beta in *.
           destruct (norm_fields h) as (_ & _ & _ & _ & _ & _ & _ & _ & N9 & _). rewrite N9. apply payload_type_fragmentable. exact Hh.
    + cbn [frame_fragments map]. destruct f; try (exfalso; vm_compute in Hf; discriminate Hf);
        (eexists; split; [cbn [mk_fragment fsid fign fcomplete norm rx rx_step]; vm_compute; reflexivity|]);
        cbn [mk_fragment fsid fign fcomplete norm ftype freqn fmd fdata]; repeat split; reflexivity.
  - exists f. split; [|reflexivity]. cbn [map]. rewrite (norm_nonfrag f Hf). cbn [rx]. unfold rx_step. rewrite Hf. reflexivity.
Qed.

Lemma rx_frames size lenreq : size_ok size -> forall fs,
  exists Rs, rx [] (map norm (concat (map (emissions size lenreq) fs))) = ([], Rs) /\ Forall2 delivered_as fs Rs.
Proof.
  intros Hs fs. induction fs as [|f r (Rs & IH & IH2)]; [exists []; split; [reflexivity|constructor]|].
  destruct (rx_one size lenreq f Hs) as (R & H1 & H2).
  exists (R :: Rs). cbn [map concat]. rewrite map_app, rx_app, H1, IH. split; [reflexivity|constructor; assumption].
Qed.

Lemma frames_of_map w : frames_of (map (fun f => IFrame (norm f)) w) = map norm w.
Proof. induction w as [|x w IH]; [reflexivity|]. cbn [map frames_of flat_map app] in *. f_equal. exact IH. Qed.

Lemma CWF_nil : CWF [].
Proof. intros k g H. discriminate H. Qed.

(* ---------- end to end ---------- *)
(* ANY history of send_frame calls and sender steps after which the sender has written everything; ANY fragment
   size >= 64 or none; ANY chunking of the resulting byte stream (byte-stream framing); every stream k: the complete
   frames the receiving pipeline hands to dispatch on k are the frames queued on k, one for one, in order, each
   delivered intact. *)
Theorem end_to_end bk size lenreq ls chunks k :
  size_ok size -> no_prio ls ->
  let s := qrun size lenreq ls in
  (forall j, pending (q s) j = []) ->
  Forall (fun f => wf f = true /\ lenN (encode f) < 2 ^ 24) (wire s) ->
  concat chunks = wire_bytes (wire s) ->
  Forall2 delivered_as (on k (enqueued ls)) (on k (receive bk chunks)).
Proof.
  intros Hs Hn s Hdrained Hwf Hbytes. unfold receive.
  rewrite (feed_all_spec (decode bk) chunks), Hbytes. unfold wire_bytes.
  rewrite (valid_frames bk (wire s) Hwf). cbn [fst]. rewrite frames_of_map.
  destruct (rx_stream k (map norm (wire s)) [] [] CWF_nil CWF_nil eq_refl) as [E _]. rewrite E, on_map_norm.
  pose proof (per_stream size lenreq Hs ls k Hn) as P. cbv zeta in P. fold s in P. rewrite (Hdrained k), app_nil_r in P. rewrite P.
  destruct (rx_frames size lenreq Hs (on k (enqueued ls))) as (Rs & HR & HF). rewrite HR. exact HF.
Qed.

(* message framing: each message is one frame; the same conclusion with the parser replaced by per-message decoding *)
Theorem end_to_end_messages size lenreq ls k :
  size_ok size -> no_prio ls ->
  let s := qrun size lenreq ls in
  (forall j, pending (q s) j = []) ->
  Forall2 delivered_as (on k (enqueued ls)) (on k (snd (rx [] (map norm (wire s))))).
Proof.
  intros Hs Hn s Hdrained.
  destruct (rx_stream k (map norm (wire s)) [] [] CWF_nil CWF_nil eq_refl) as [E _]. rewrite E, on_map_norm.
  pose proof (per_stream size lenreq Hs ls k Hn) as P. cbv zeta in P. fold s in P. rewrite (Hdrained k), app_nil_r in P. rewrite P.
  destruct (rx_frames size lenreq Hs (on k (enqueued ls))) as (Rs & HR & HF). rewrite HR. exact HF.
Qed.

Lemma Forall2_len {A B} (P : A -> B -> Prop) l1 l2 : Forall2 P l1 l2 -> length l1 = length l2.
Proof. induction 1; cbn [length]; congruence. Qed.

(* nothing crosses streams: whatever is dispatched on k was queued on k (a corollary worth stating on its own) *)
Corollary nothing_from_other_streams bk size lenreq ls chunks k :
  size_ok size -> no_prio ls ->
  let s := qrun size lenreq ls in
  (forall j, pending (q s) j = []) ->
  Forall (fun f => wf f = true /\ lenN (encode f) < 2 ^ 24) (wire s) ->
  concat chunks = wire_bytes (wire s) ->
  length (on k (receive bk chunks)) = length (on k (enqueued ls)).
Proof.
  intros Hs Hn s Hd Hw Hb. symmetry. eapply Forall2_len. apply (end_to_end bk size lenreq ls chunks k); assumption.
Qed.

(* non-vacuity: two streams, a 150-byte payload fragmented at 64 interleaved with a request on another stream, read
   in three odd chunks *)
Definition ex_ls : list qlabel :=
  [QEnq (FPayload 1 false false true true [] (pat 1 0 150)); QEnq (FRequestResponse 3 false false [x01] [x02]);
   QSend; QSend; QSend; QSend; QSend].
Example end_to_end_example :
  let s := qrun (Some 64) true ex_ls in
  (forall j, pending (q s) j = []) /\ length (wire s) = 4%nat /\
  map (fun f => (ftype f, lenN (fdata f))) (on 1 (receive Cbit [takeN (wire_bytes (wire s)) 5; takeN (dropN (wire_bytes (wire s)) 5) 100;
                                     dropN (wire_bytes (wire s)) 105])) = [(FT_PAYLOAD, 150)].
Proof. split; [intro j; vm_compute; reflexivity|]. vm_compute. split; reflexivity. Qed.
