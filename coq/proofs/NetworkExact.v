(* C01 above the pipeline, the global no-loss statement: over a whole history of two connected endpoints, the payloads with
   content the application is given from a stream are EXACTLY the payloads with content the peer queued on it — provided
   the local party was still listening each time one arrived, and nothing of the stream is still under way.
   (proofs/NetworkProofs.v has the unconditional half: what is given is an in-order selection of what was queued.) *)
From Coq Require Import Arith NArith List Bool Lia Init.Byte.
From RSV Require Import gen.GenConst lib.Bytes model.Frame model.Fragmenter model.StreamIds model.Endpoint model.Network
     proofs.EndpointProofs proofs.EndpointWire proofs.NetworkProofs.
Import ListNotations.
Open Scope N_scope.

(* ---------- frames under way are in the form the pipeline delivers them ---------- *)
Definition normal (f : frame) : Prop := on_wire f = f.

Lemma on_wire_idem f : on_wire (on_wire f) = on_wire f.
Proof. destruct f; reflexivity. Qed.

Lemma normal_map l : Forall normal (map on_wire l).
Proof. induction l as [|x l IH]; constructor; [apply on_wire_idem|exact IH]. Qed.

Lemma pop_Forall (P : frame -> Prop) : forall q k f r, pop q k = Some (f, r) -> Forall P q -> P f /\ Forall P r.
Proof.
  induction q as [|x q IH]; intros k f r H HF; [discriminate|]. cbn [pop] in H. inversion HF as [|? ? Hx Hq]; subst.
  destruct (fsid x =? k).
  - injection H as -> ->. split; assumption.
  - destruct (pop q k) as [[g r']|] eqn:Hp; [|discriminate]. injection H as E1 E2. subst f r.
    destruct (IH k g r' Hp Hq) as [Hg Hr]. split; [exact Hg|constructor; assumption].
Qed.

Definition links_normal (n : net) : Prop := Forall normal (to_a n) /\ Forall normal (to_b n).

Lemma links_normal_inbox n s : links_normal n -> Forall normal (inbox n s).
Proof. intros [Ha Hb]. destruct s; assumption. Qed.

Lemma update_normal n s e q sent : links_normal n -> Forall normal q -> links_normal (update n s e q sent).
Proof.
  intros [Ha Hb] Hq. destruct s; unfold update, links_normal; cbn [to_a to_b]; split; try assumption;
    apply Forall_app; split; try assumption; apply normal_map.
Qed.

Lemma step_normal n l : links_normal n -> links_normal (fst (net_step n l)).
Proof.
  intro H. destruct l as [s l|s k o u]; cbn [net_step].
  - destruct (is_recv l); [exact H|]. destruct (ep_step true (ep_of n s) l) as [e' effs]. cbn [fst].
    apply update_normal; [exact H|apply links_normal_inbox; exact H].
  - destruct (pop (inbox n s) k) as [[f rest]|] eqn:Hp; [|exact H].
    destruct (recv_dispatch (ep_of n s) f o u) as [e' effs]. cbn [fst].
    apply update_normal; [exact H|]. exact (proj2 (pop_Forall normal _ _ _ _ Hp (links_normal_inbox n s H))).
Qed.

(* ---------- "the local party is listening" ---------- *)
(* the endpoint is in a position to hand f's payload over: a request on an id that is free here, or an element / response
   for a stream whose object still expects one (proofs/NetworkProofs.v receptive).  No other frame type carries a payload
   for the application on a stream other than 0. *)
Definition hears (e : ep) (f : frame) : Prop :=
  match f with
  | FRequestResponse _ _ _ _ _ | FRequestFnf _ _ _ _ _ | FRequestStream _ _ _ _ _ _ | FRequestChannel _ _ _ _ _ _ _ =>
      tget (table e) (fsid f) = None
  | FPayload _ _ _ _ _ _ _ =>
      exists oid ob, tget (table e) (fsid f) = Some oid /\ nth_error (objs e) oid = Some ob /\ receptive ob = true
  | _ => False
  end.

(* what the condition asks at one step of a history *)
Definition listens_at (n : net) (l : nlabel) (s : side) (k : N) : Prop :=
  match l with
  | NDeliver s' k' _ _ =>
      if side_eqb s' s && (k' =? k) then
        match pop (inbox n s) k with
        | Some (f, _) => match carried f with
                         | Some p => nonempty p = true -> hears (ep_of n s) f
                         | None => True
                         end
        | None => True
        end
      else True
  | NLocal _ _ => True
  end.

(* over a history: each time a frame of stream k that carries a payload with content is dispatched at s, s hears it *)
Fixpoint listening (n : net) (ls : list nlabel) (s : side) (k : N) : Prop :=
  match ls with
  | [] => True
  | l :: r => listens_at n l s k /\ listening (fst (net_step n l)) r s k
  end.

Definition wanted (l : list (bytes * bytes)) : list (bytes * bytes) := filter nonempty l.

Lemma wanted_app a b : wanted (a ++ b) = wanted a ++ wanted b.
Proof. apply filter_app. Qed.

(* one dispatch: a frame the endpoint hears is handed over *)
Lemma heard_delivered e f o u p : fsid f <> 0 -> normal f -> carried f = Some p -> nonempty p = true -> hears e f ->
  app_payloads (snd (recv_dispatch e f o u)) = [p].
Proof.
  intros Hs Hn Hc Hne Hh.
  destruct f; try contradiction Hh; cbn [hears] in Hh.
  - destruct (request_delivered e (FRequestResponse sid ign follows md d) o u eq_refl Hs Hh) as [p' [Hc' Hp']]. congruence.
  - destruct (request_delivered e (FRequestFnf sid ign follows md d) o u eq_refl Hs Hh) as [p' [Hc' Hp']]. congruence.
  - destruct (request_delivered e (FRequestStream sid ign follows n md d) o u eq_refl Hs Hh) as [p' [Hc' Hp']]. congruence.
  - destruct (request_delivered e (FRequestChannel sid ign follows complete n md d) o u eq_refl Hs Hh) as [p' [Hc' Hp']]. congruence.
  - (* PAYLOAD: in normal form NEXT = has content *)
    destruct Hh as [oid [ob [Ht [Ho Hr]]]]. cbn [fsid] in *.
    unfold normal in Hn. cbn [on_wire] in Hn. injection Hn as Hnx. cbn [carried] in Hc. injection Hc as <-.
    unfold nonempty in Hne. cbn [fst snd] in Hne. rewrite Hne in Hnx. subst next.
    exact (proj1 (element_delivered e sid oid ob ign follows complete md d o u Hs Ht Ho Hr)).
Qed.

(* one step of the network *)
Lemma step_exact n l s k : k <> 0 -> links_normal n -> listens_at n l s k ->
  wanted (got (snd (net_step n l)) s k) = wanted (pmap carried (on_stream k (delivered (snd (net_step n l)) s))).
Proof.
  intros Hk HN HL. destruct l as [s0 l|s0 k0 o u]; cbn [net_step].
  - destruct (is_recv l) eqn:Hl; [reflexivity|].
    pose proof (local_no_payloads true (ep_of n s0) l Hl) as Hp.
    destruct (ep_step true (ep_of n s0) l) as [e' effs]. cbn [snd] in *. cbn [got delivered]. rewrite Hp.
    destruct (side_eqb s0 s); reflexivity.
  - cbn [listens_at] in HL.
    destruct (side_eqb s0 s) eqn:Es.
    + apply side_eqb_eq in Es. subst s0.
      destruct (N.eqb_spec k0 k) as [->|Hne]; cbn [andb] in HL.
      * destruct (pop (inbox n s) k) as [[f rest]|] eqn:Hp; [|reflexivity].
        destruct (pop_spec _ _ _ _ Hp) as [Hs _].
        pose proof (proj1 (pop_Forall normal _ _ _ _ Hp (links_normal_inbox n s HN))) as Hnf.
        pose proof (dispatch_intact (ep_of n s) f o u) as Hd.
        assert (fsid f <> 0) as Hs0 by (rewrite Hs; exact Hk).
        pose proof (heard_delivered (ep_of n s) f o u) as Hh.
        destruct (recv_dispatch (ep_of n s) f o u) as [e' effs]. cbn [snd] in *.
        cbn [got delivered]. rewrite side_eqb_refl, Hs, N.eqb_refl. cbn [andb app].
        rewrite !app_nil_r. cbn [on_stream filter]. rewrite Hs, N.eqb_refl. cbn [pmap].
        destruct (carried f) as [p|] eqn:Hc.
        -- cbn [pmap]. destruct Hd as [Hd|[p' [Hp' Hd]]].
           ++ rewrite Hd. unfold wanted. cbn [filter]. destruct (nonempty p) eqn:Hne; [|reflexivity].
              specialize (Hh p Hs0 Hnf eq_refl Hne (HL eq_refl)). rewrite Hd in Hh. discriminate Hh.
           ++ injection Hp' as <-. rewrite Hd. reflexivity.
        -- destruct Hd as [Hd|[p' [Hp' _]]]; [rewrite Hd; reflexivity|discriminate Hp'].
      * destruct (pop (inbox n s) k0) as [[f rest]|] eqn:Hp; [|reflexivity].
        destruct (pop_spec _ _ _ _ Hp) as [Hs _].
        destruct (recv_dispatch (ep_of n s) f o u) as [e' effs]. cbn [snd].
        cbn [got delivered]. rewrite side_eqb_refl, Hs. apply N.eqb_neq in Hne. rewrite Hne. cbn [andb app].
        rewrite ?app_nil_r. cbn [on_stream filter]. rewrite Hs, Hne. reflexivity.
    + destruct (pop (inbox n s0) k0) as [[f rest]|] eqn:Hp; [|reflexivity].
      destruct (recv_dispatch (ep_of n s0) f o u) as [e' effs]. cbn [snd]. cbn [got delivered]. rewrite Es. reflexivity.
Qed.

Lemma run_exact : forall ls n s k, k <> 0 -> links_normal n -> listening n ls s k ->
  wanted (got (snd (net_run n ls)) s k) = wanted (pmap carried (on_stream k (delivered (snd (net_run n ls)) s))).
Proof.
  induction ls as [|l ls IH]; intros n s k Hk HN HL; [reflexivity|].
  cbn [net_run]. destruct HL as [H1 H2].
  pose proof (step_exact n l s k Hk HN H1) as Hs. pose proof (step_normal n l HN) as HN'.
  specialize (IH (fst (net_step n l)) s k Hk HN' H2).
  destruct (net_step n l) as [n1 x]. cbn [fst snd] in *. destruct (net_run n1 ls) as [n2 xs]. cbn [snd] in *.
  rewrite got_app, delivered_app, on_stream_app, pmap_app, !wanted_app, Hs, IH. reflexivity.
Qed.

(* EXACTLY ONCE.  For every history of the two endpoints from connection start, each side s and each stream k other
   than 0: if s was listening whenever a payload with content arrived on k (a request found its id free, an element or
   response found its subscriber / awaitable still expecting one), and nothing of stream k is still under way to s, then
   the payloads with content the application at s was given from k are exactly those the peer queued on k: none lost, none
   twice, in the order queued. *)
Theorem network_exactly_once ls s k : k <> 0 -> listening net_init ls s k ->
  let r := net_run net_init ls in
  on_stream k (inbox (fst r) s) = [] ->
  wanted (got (snd r) s k) = wanted (pmap carried (on_stream k (nwire (snd r) (other s)))).
Proof.
  intros Hk HL. cbn zeta. intro Hd.
  assert (links_normal net_init) as HN by (split; constructor).
  pose proof (run_exact ls net_init s k Hk HN HL) as E.
  pose proof (network_in_flight ls s k) as L. cbn zeta in L. rewrite Hd, app_nil_r in L. rewrite L. exact E.
Qed.

(* ---------- a decidable form of the premise (used by corr/NetworkCorr.v to count, on the recorded histories of two real
   endpoints, how often the premises of the theorem are met) ---------- *)
Definition hearsb (e : ep) (f : frame) : bool :=
  match f with
  | FRequestResponse _ _ _ _ _ | FRequestFnf _ _ _ _ _ | FRequestStream _ _ _ _ _ _ | FRequestChannel _ _ _ _ _ _ _ =>
      match tget (table e) (fsid f) with None => true | Some _ => false end
  | FPayload _ _ _ _ _ _ _ =>
      match tget (table e) (fsid f) with
      | Some oid => match nth_error (objs e) oid with Some ob => receptive ob | None => false end
      | None => false
      end
  | _ => false
  end.

Lemma hearsb_sound e f : hearsb e f = true -> hears e f.
Proof.
  unfold hearsb, hears. destruct f; try discriminate;
    try (destruct (tget (table e) _) eqn:Ht; [discriminate|reflexivity]).
  destruct (tget (table e) _) as [oid|] eqn:Ht; [|discriminate].
  destruct (nth_error (objs e) oid) as [ob|] eqn:Ho; [|discriminate].
  intro Hr. exists oid, ob. repeat split; assumption.
Qed.

Definition listens_atb (n : net) (l : nlabel) (s : side) (k : N) : bool :=
  match l with
  | NDeliver s' k' _ _ =>
      if side_eqb s' s && (k' =? k) then
        match pop (inbox n s) k with
        | Some (f, _) => match carried f with
                         | Some p => negb (nonempty p) || hearsb (ep_of n s) f
                         | None => true
                         end
        | None => true
        end
      else true
  | NLocal _ _ => true
  end.

Fixpoint listeningb (n : net) (ls : list nlabel) (s : side) (k : N) : bool :=
  match ls with
  | [] => true
  | l :: r => listens_atb n l s k && listeningb (fst (net_step n l)) r s k
  end.

Lemma listeningb_sound : forall ls n s k, listeningb n ls s k = true -> listening n ls s k.
Proof.
  induction ls as [|l ls IH]; intros n s k H; [exact I|]. cbn [listeningb] in H. apply andb_true_iff in H as [H1 H2].
  split; [|apply IH; exact H2]. clear H2 IH.
  destruct l as [s0 l|s0 k0 o u]; [exact I|]. cbn [listens_at listens_atb] in *.
  destruct (side_eqb s0 s && (k0 =? k)); [|exact I].
  destruct (pop (inbox n s) k) as [[f rest]|]; [|exact I].
  destruct (carried f) as [p|]; [|exact I].
  intro Hne. rewrite Hne in H1. cbn [negb orb] in H1. apply hearsb_sound. exact H1.
Qed.

Corollary network_exactly_once_b ls s k : k <> 0 -> listeningb net_init ls s k = true ->
  let r := net_run net_init ls in
  on_stream k (inbox (fst r) s) = [] ->
  wanted (got (snd r) s k) = wanted (pmap carried (on_stream k (nwire (snd r) (other s)))).
Proof. intros Hk H. apply network_exactly_once; [exact Hk|apply listeningb_sound; exact H]. Qed.

(* an empty payload is no element on the wire (on_wire): the statement above cannot speak about those; what it leaves
   out is exactly this *)
Lemma wanted_spec l p : In p (wanted l) <-> In p l /\ nonempty p = true.
Proof. unfold wanted. apply filter_In. Qed.

(* non-vacuity: the history of network_example — a request-response one way, a request-stream with two elements the other
   way, deliveries interleaved — satisfies the premises on every stream it uses, and the conclusion has content *)
Lemma exactly_once_example :
  let ls := [NLocal SA (LReqResponse [x01] [x02]); NLocal SB (LReqStream [x03] [x04]);
             NLocal SB (LSubscribe 0%nat true [x03] [x04]);
             NDeliver SB 1 OFuture true; NDeliver SA 2 OPublisher true;
             NLocal SA (LPubNext 1%nat [x05] [x06] false); NLocal SB (LAppResolve 1%nat (ARResult [x07] [x08]));
             NLocal SB (LFutCb 1%nat (ARResult [x07] [x08])); NLocal SA (LPubNext 1%nat [] [x09] true);
             NDeliver SB 2 ONone true; NDeliver SA 1 ONone true; NDeliver SB 2 ONone true] in
  (listening net_init ls SB 1 /\ listening net_init ls SA 1 /\ listening net_init ls SB 2 /\ listening net_init ls SA 2) /\
  inbox (fst (net_run net_init ls)) SA = [] /\ inbox (fst (net_run net_init ls)) SB = [] /\
  wanted (got (snd (net_run net_init ls)) SB 2) = [([x05], [x06]); ([], [x09])].
Proof.
  cbn zeta. split; [|vm_compute; repeat split].
  vm_compute. repeat split; try (intros _; reflexivity);
    try (intros _; eexists; eexists; split; [reflexivity|split; reflexivity]).
Qed.
