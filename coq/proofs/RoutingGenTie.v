(* The hand-written dispatch tables of model/Routing.v equal the tables regenerated from the source on
   every run (gen/GenRouting.v).  A change of the dictionaries, decorators or except-clauses in
   request_router.py / routing_request_handler.py breaks one of these equalities. *)
From Coq Require Import NArith List Bool.
From RSV Require Import gen.GenConst gen.GenRouting model.Routing.
Import ListNotations.
Open Scope N_scope.

Definition slot_code (s : slot) : N :=
  match s with SlResponse => 1 | SlStream => 2 | SlChannel => 3 | SlFnf => 4 | SlPush => 5 end.
Definition ufield_code (u : ufield) : N :=
  match u with UResponse => 1 | UStream => 2 | UChannel => 3 | UFnf => 4 | UPush => 5 end.
Definition deco_code (d : deco) : N :=
  match d with DResponse => 1 | DStream => 2 | DChannel => 3 | DFnf => 4 | DPush => 5 end.
Definition meth_code (m : meth) : N :=
  match m with MResponse => 1 | MStream => 2 | MChannel => 3 | MFnf => 4 | MPush => 5 end.
Definition errkind_code (e : errkind) : N :=
  match e with ESwallowed => 0 | EFuture => 1 | EStream => 2 | EChannelStream => 3 end.

Definition all_decos := [DResponse; DStream; DChannel; DFnf; DPush].
Definition all_meths := [MResponse; MStream; MChannel; MFnf; MPush].

Lemma routing_tables_match_source :
  map (fun p => (fst p, slot_code (snd p))) route_map_by_frame_type = gen_route_map /\
  map (fun p => (fst p, ufield_code (snd p))) unknown_route_chain = gen_unknown_chain /\
  map (fun d => (deco_code d, slot_code (deco_slot d))) all_decos = gen_deco_slot /\
  map (fun d => (deco_code d, ufield_code (deco_unknown d))) all_decos = gen_deco_unknown /\
  map (fun m => (meth_code m, meth_frame_type m, errkind_code (meth_error m), meth_returns m)) all_meths = gen_meth_table /\
  wrap_frame_type = gen_wrap_frame_type.
Proof. repeat split; reflexivity. Qed.
