(* Two endpoints (model/Endpoint.v) joined by the transport pipeline.  Definitions only.

   The link between them is what props/C01.v C01_end_to_end proves of the real pipeline (send queue, fragmenter, codec,
   parser, reassembly cache): per stream, the complete frames reaching dispatch are the frames queued, one for one, in
   order, intact — while frames of DIFFERENT streams may overtake each other (the sender interleaves fragment trains).
   So a delivery step names a stream and hands the oldest undelivered frame of that stream to the receiving endpoint's
   dispatch (recv_dispatch: the frame is complete, reassembly is below this level).

   A history is any list of: an atomic section of either endpoint that is not a reception (application calls, future
   callbacks, publisher signals, the close sweep), or the delivery of one frame.  Timing, chunking, fragmentation and
   pacing are all histories of this shape. *)
From Coq Require Import NArith List Bool Init.Byte.
From RSV Require Import gen.GenConst lib.Bytes model.Frame model.Fragmenter model.StreamIds model.Endpoint.
Import ListNotations.
Open Scope N_scope.

Inductive side := SA | SB.
Definition other (s : side) : side := match s with SA => SB | SB => SA end.
Definition side_eqb (a b : side) : bool := match a, b with SA, SA | SB, SB => true | _, _ => false end.

Record net := {
  ea : ep; eb : ep;
  to_a : list frame;        (* queued by B, not yet dispatched at A (oldest first) *)
  to_b : list frame
}.

(* A is the client (odd stream ids), B the server (even) *)
Definition net_init : net := {| ea := ep_init 1; eb := ep_init 2; to_a := []; to_b := [] |}.

Definition ep_of (n : net) (s : side) : ep := match s with SA => ea n | SB => eb n end.
Definition inbox (n : net) (s : side) : list frame := match s with SA => to_a n | SB => to_b n end.

Definition sent_frames (effs : list effect) : list frame :=
  flat_map (fun x => match x with XEnq f => [f] | _ => [] end) effs.

(* A frame as the pipeline delivers it: the sender rebuilds every payload-carrying frame from its fragments
   (new_frame_fragment: NEXT unset) and serialisation sets NEXT exactly when there is content, so a PAYLOAD frame comes
   out with NEXT = "has data or metadata" whatever the emitter set — an empty element is no element (cf. Frame.norm,
   Fragmenter.mk_fragment; proofs/NetworkProofs.v on_wire_is_pipeline). *)
Definition on_wire (f : frame) : frame :=
  match f with
  | FPayload sid ign fo co _ md d => FPayload sid ign fo co (has_content md d) md d
  | _ => f
  end.

(* endpoint s becomes e, its inbox becomes q, and what it queued goes behind everything already under way to the peer *)
Definition update (n : net) (s : side) (e : ep) (q : list frame) (sent : list frame) : net :=
  match s with
  | SA => {| ea := e; eb := eb n; to_a := q; to_b := to_b n ++ map on_wire sent |}
  | SB => {| ea := ea n; eb := e; to_a := to_a n ++ map on_wire sent; to_b := q |}
  end.

(* the oldest frame of stream k in a queue, and the queue without it *)
Fixpoint pop (q : list frame) (k : N) : option (frame * list frame) :=
  match q with
  | [] => None
  | f :: r => if fsid f =? k then Some (f, r)
              else match pop r k with Some (g, r') => Some (g, f :: r') | None => None end
  end.

Inductive nlabel :=
| NLocal (s : side) (l : label)                        (* a section of endpoint s that is not a reception *)
| NDeliver (s : side) (k : N) (o : outcome) (u : bool). (* s dispatches the oldest undelivered frame of stream k;
                                                           o, u: the application handler's behaviour, ERROR text decodable *)

Inductive nevent :=
| EvLocal (s : side) (l : label) (effs : list effect)
| EvDeliver (s : side) (f : frame) (effs : list effect).

Definition is_recv (l : label) : bool := match l with LRecv _ _ => true | _ => false end.

Definition net_step (n : net) (l : nlabel) : net * list nevent :=
  match l with
  | NLocal s l =>
      if is_recv l then (n, [])
      else let (e', effs) := ep_step true (ep_of n s) l in
           (update n s e' (inbox n s) (sent_frames effs), [EvLocal s l effs])
  | NDeliver s k o u =>
      match pop (inbox n s) k with
      | None => (n, [])
      | Some (f, rest) =>
          let (e', effs) := recv_dispatch (ep_of n s) f o u in
          (update n s e' rest (sent_frames effs), [EvDeliver s f effs])
      end
  end.

Fixpoint net_run (n : net) (ls : list nlabel) : net * list nevent :=
  match ls with
  | [] => (n, [])
  | l :: r => let (n1, x) := net_step n l in let (n2, xs) := net_run n1 r in (n2, x ++ xs)
  end.

(* ---------- what is observed ---------- *)
(* the payload a frame carries for the peer's application *)
Definition carried (f : frame) : option (bytes * bytes) :=
  match f with
  | FRequestResponse _ _ _ md d | FRequestFnf _ _ _ md d | FRequestStream _ _ _ _ md d
  | FRequestChannel _ _ _ _ _ md d | FPayload _ _ _ _ _ md d => Some (md, d)
  | FMetadataPush _ _ md => Some (md, [])
  | _ => None
  end.

(* payloads handed to the application by a list of effects: handler arguments, subscriber elements, awaitable results *)
Definition app_payloads (effs : list effect) : list (bytes * bytes) :=
  flat_map (fun x => match x with
                     | XHandler HOnError _ _ | XHandler HOnSetup _ _ => []
                     | XHandler _ md d => [(md, d)]
                     | XCb _ (SNext md d _) => [(md, d)]
                     | XFut _ true md d => [(md, d)]
                     | _ => []
                     end) effs.

(* the payload the application hands to the library in one section *)
Definition label_payload (l : label) : option (bytes * bytes) :=
  match l with
  | LReqResponse md d | LSubscribe _ _ md d | LFnf md d | LPubNext _ md d _ | LFutCb _ (ARResult md d) => Some (md, d)
  | LMetaPush md => Some (md, [])
  | _ => None
  end.

Definition on_stream (k : N) (l : list frame) : list frame := filter (fun f => fsid f =? k) l.

Fixpoint pmap {A B} (f : A -> option B) (l : list A) : list B :=
  match l with [] => [] | x :: r => match f x with Some y => y :: pmap f r | None => pmap f r end end.

(* everything endpoint s queued, in order, as it travels *)
Fixpoint nwire (tr : list nevent) (s : side) : list frame :=
  match tr with
  | [] => []
  | EvLocal s' _ effs :: r | EvDeliver s' _ effs :: r =>
      (if side_eqb s' s then map on_wire (sent_frames effs) else []) ++ nwire r s
  end.

(* the frames dispatched at s, in order *)
Fixpoint delivered (tr : list nevent) (s : side) : list frame :=
  match tr with
  | [] => []
  | EvDeliver s' f _ :: r => (if side_eqb s' s then [f] else []) ++ delivered r s
  | _ :: r => delivered r s
  end.

(* the payloads the application at s was given from stream k, in order *)
Fixpoint got (tr : list nevent) (s : side) (k : N) : list (bytes * bytes) :=
  match tr with
  | [] => []
  | EvDeliver s' f effs :: r => (if side_eqb s' s && (fsid f =? k) then app_payloads effs else []) ++ got r s k
  | EvLocal s' _ effs :: r => (if side_eqb s' s then app_payloads effs else []) ++ got r s k
  end.

(* in-order sub-sequence *)
Inductive subseq {A} : list A -> list A -> Prop :=
| sub_nil : forall l, subseq [] l
| sub_take : forall x a b, subseq a b -> subseq (x :: a) (x :: b)
| sub_skip : forall x a b, subseq a b -> subseq a (x :: b).

Definition nonempty (p : bytes * bytes) : bool := has_content (fst p) (snd p).
