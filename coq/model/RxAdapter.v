(* Model of the Rx (v3) / ReactiveX (v4) adapters — the two packages are the same code up to the library they import:
   from_rsocket_publisher.py  RxSubscriber + _trigger_next_request_n (requester side: Publisher -> Observable with request
                              batching), RxSubscriberFromObserver (handler side of a channel),
   *_handler_adapter.py       delegation of every RequestHandler method (tables regenerated in gen/GenAdapters.v),
   back_pressure_publisher.py Observable -> Publisher is model/Publisher.v (obs_events: one credit per notification).
   Definitions only. *)
From Coq Require Import NArith List Bool String.
Import ListNotations.
Open Scope N_scope.

(* what the wrapped Subscriber is given by the stream requester *)
Inductive sin :=
| SNext (v : N) (complete : bool)    (* on_next(value, is_complete) *)
| SComplete                          (* on_complete() *)
| SErr                               (* on_error(exception) *)
| STask.                             (* the _trigger_next_request_n task gets a turn *)

(* what the Observer of the result observable sees *)
Inductive oev := ONext (v : N) | OCompleted | OError.

Record rxs := { got : N;            (* _received_messages *)
                want_more : bool;   (* get_next_n is set *)
                finished : bool }.  (* done is set *)

Definition rxs_init : rxs := {| got := 0; want_more := false; finished := false |}.

(* RxSubscriber (limit_rate = limit): new state, observer events, subscription.request amounts *)
Definition rx_step (limit : N) (s : rxs) (i : sin) : rxs * list oev * list N :=
  match i with
  | SNext v c =>
      let g := got s + 1 in
      if c then ({| got := g; want_more := want_more s; finished := true |}, [ONext v; OCompleted], [])
      else if g =? limit then ({| got := 0; want_more := true; finished := finished s |}, [ONext v], [])
      else ({| got := g; want_more := want_more s; finished := finished s |}, [ONext v], [])
  | SComplete => ({| got := got s; want_more := want_more s; finished := true |}, [OCompleted], [])
  | SErr => ({| got := got s; want_more := want_more s; finished := true |}, [OError], [])
  | STask => if want_more s then ({| got := got s; want_more := false; finished := finished s |}, [], [limit])
             else (s, [], [])
  end.

Fixpoint rx_run (limit : N) (s : rxs) (is : list sin) : rxs * list oev * list N :=
  match is with
  | [] => (s, [], [])
  | i :: r => let '(s1, o1, q1) := rx_step limit s i in
              let '(s2, o2, q2) := rx_run limit s1 r in (s2, o1 ++ o2, q1 ++ q2)
  end.

(* RxSubscriberFromObserver (handler side of a channel): requests limit at on_subscribe and again, synchronously,
   after every limit elements *)
Definition hs_step (limit : N) (g : N) (i : sin) : N * list oev * list N :=
  match i with
  | SNext v c =>
      if c then (g + 1, [ONext v; OCompleted], [])
      else if g + 1 =? limit then (0, [ONext v], [limit]) else (g + 1, [ONext v], [])
  | SComplete => (g, [OCompleted], [])
  | SErr => (g, [OError], [])
  | STask => (g, [], [])
  end.

Fixpoint hs_run (limit : N) (g : N) (is : list sin) : N * list oev * list N :=
  match is with
  | [] => (g, [], [])
  | i :: r => let '(g1, o1, q1) := hs_step limit g i in
              let '(g2, o2, q2) := hs_run limit g1 r in (g2, o1 ++ o2, q1 ++ q2)
  end.

(* the element / terminal events of an input history, as an observer should see them *)
Definition events_of (is : list sin) : list oev :=
  flat_map (fun i => match i with SNext v c => if c then [ONext v; OCompleted] else [ONext v]
                                | SComplete => [OCompleted] | SErr => [OError] | STask => [] end) is.

Definition elements (is : list sin) : N :=
  fold_right (fun i acc => match i with SNext _ _ => acc + 1 | _ => acc end) 0 is.

(* the methods of RequestHandler an adapter must hand on *)
Definition handler_methods : list string :=
  ["on_setup"; "on_metadata_push"; "request_channel"; "request_fire_and_forget"; "request_response"; "request_stream";
   "on_error"; "on_keepalive_timeout"; "on_connection_error"; "on_close"]%string.
