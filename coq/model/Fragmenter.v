(* Model of rsocket/frame_fragmenter.py (FrameFragmenter.__iter__, data_to_fragments_if_required),
   frame.new_frame_fragment / get_header_length, and rsocket/frame_fragment_cache.py.  Definitions only. *)
From Coq Require Import NArith List Bool Init.Byte.
From RSV Require Import gen.GenConst lib.Bytes model.Frame.
Import ListNotations.
Open Scope N_scope.

(* Fragment(data, metadata, is_last, is_first) *)
Record frag := { is_first : bool; is_last : bool; fr_md : bytes; fr_d : bytes }.

(* phase 1: whole fragments of metadata; returns the fragments, the short last metadata chunk,
   and whether the next fragment is still the first one *)
Fixpoint md_phase (fuel : nat) (first next : N) (isf : bool) (md : bytes) (dl_zero : bool)
  : list frag * bytes * bool :=
  match fuel with
  | O => ([], [], isf)
  | S k =>
      let sz := if isf then first else next in
      let mf := takeN md sz in
      let rest := dropN md sz in
      if lenN mf =? 0 then ([], [], isf)
      else if lenN mf <? sz then ([], mf, isf)
      else let '(fs, lm, fi) := md_phase k first next false rest dl_zero in
           ({| is_first := isf; is_last := dl_zero && is_nil rest; fr_md := mf; fr_d := [] |} :: fs, lm, fi)
  end.

(* phase 3: the rest of the data *)
Fixpoint data_phase (fuel : nat) (first next : N) (isf : bool) (d : bytes) : list frag :=
  match fuel with
  | O => []
  | S k =>
      let sz := if isf then first else next in
      let df := takeN d sz in
      let rest := dropN d sz in
      let last := is_nil rest in
      (if lenN df =? 0 then [] else [{| is_first := isf; is_last := last; fr_md := []; fr_d := df |}])
      ++ (if last then [] else data_phase k first next (if lenN df =? 0 then isf else false) rest)
  end.

Definition fragments (first next : N) (md d : bytes) : list frag :=
  if is_nil md && is_nil d then [{| is_first := true; is_last := true; fr_md := []; fr_d := [] |}]
  else
    let '(mfs, last_md, isf) := md_phase (S (length md)) first next true md (is_nil d) in
    let sz := if isf then first else next in
    let expected := sz - lenN last_md in
    let df := takeN d expected in
    let rest := dropN d expected in
    let sent := is_nil rest in
    if negb (is_nil last_md) || negb (is_nil df) then
      mfs ++ [{| is_first := isf; is_last := sent; fr_md := last_md; fr_d := df |}]
          ++ (if sent then [] else data_phase (S (length rest)) first next false rest)
    else mfs.   (* nothing yielded in phase 2: no metadata tail and no data left *)

(* get_header_length *)
Definition header_length_of (f : frame) : N :=
  match find (fun p => fst p =? ftype f) frame_header_length_table with
  | Some (_, n) => n
  | None => 0
  end.

Definition is_fragmentable (f : frame) : bool := existsb (N.eqb (ftype f)) fragmentable_ids.

Definition fcomplete (f : frame) : bool :=
  match f with
  | FRequestChannel _ _ _ co _ _ _ | FPayload _ _ _ co _ _ _ => co
  | _ => false
  end.

(* new_frame_fragment(base, fragment).  [last] is None for the unfragmented path (is_last=None):
   follows = (is_last is False). *)
Definition mk_fragment (base : frame) (isf : bool) (last : option bool) (md d : bytes) : frame :=
  let fo := match last with Some false => true | _ => false end in
  let co := match last with Some false => false | _ => fcomplete base end in
  let sid := fsid base in let ign := fign base in
  if isf then
    match base with
    | FRequestResponse _ _ _ _ _ => FRequestResponse sid ign fo md d
    | FRequestFnf _ _ _ _ _ => FRequestFnf sid ign fo md d
    | FRequestStream _ _ _ n _ _ => FRequestStream sid ign fo n md d
    | FRequestChannel _ _ _ _ n _ _ => FRequestChannel sid ign fo co n md d
    | _ => FPayload sid ign fo co false md d
    end
  else FPayload sid ign fo co false md d.

(* FrameFragmentMixin.get_next_fragment, all fragments in order.
   size = None: one frame carrying everything. *)
Definition frame_fragments (f : frame) (size : option N) (lenreq : bool) : list frame :=
  match size with
  | None => [mk_fragment f true None (fmd f) (fdata f)]
  | Some sz =>
      let first := sz - header_length_of f - (if lenreq then 3 else 0) in
      let next := sz - 6 - (if lenreq then 3 else 0) in
      map (fun g => mk_fragment f (is_first g) (Some (is_last g)) (fr_md g) (fr_d g))
          (fragments first next (fmd f) (fdata f))
  end.

(* bytes on the wire of one frame, with or without the 3-byte length prefix *)
Definition wire_len (lenreq : bool) (f : frame) : N := lenN (encode f) + (if lenreq then 3 else 0).

(* ------------------------------------------------------------------------------------------ *)
(* FrameFragmentCache *)

Definition cache := list (N * frame).

Fixpoint cache_get (c : cache) (sid : N) : option frame :=
  match c with
  | [] => None
  | (k, f) :: r => if k =? sid then Some f else cache_get r sid
  end.

Definition cache_remove (c : cache) (sid : N) : cache := filter (fun p => negb (fst p =? sid)) c.
Definition cache_set (c : cache) (sid : N) (f : frame) : cache := (sid, f) :: cache_remove c sid.

Definition is_payload (f : frame) : bool := match f with FPayload _ _ _ _ _ _ _ => true | _ => false end.

Definition fnext (f : frame) : bool := match f with FPayload _ _ _ _ nx _ _ => nx | _ => false end.

(* _merge_frame_content_inplace + the flag merge of _frame_fragment_builder *)
Definition merge (cur nxt : frame) : frame :=
  let md := fmd cur ++ fmd nxt in
  let d := fdata cur ++ fdata nxt in
  match cur with
  | FPayload sid ign fo _ _ _ _ => FPayload sid ign fo (fcomplete nxt) (fnext nxt) md d
  | FRequestChannel sid ign fo _ n _ _ => FRequestChannel sid ign fo (fcomplete nxt) n md d
  | FRequestStream sid ign fo n _ _ => FRequestStream sid ign fo n md d
  | FRequestResponse sid ign fo _ _ => FRequestResponse sid ign fo md d
  | FRequestFnf sid ign fo _ _ => FRequestFnf sid ign fo md d
  | other => other
  end.

Inductive ares := AFrame (f : frame) | AAbsorbed | ARaise.

Definition ffollows (f : frame) : bool :=
  match f with
  | FRequestResponse _ _ fo _ _ | FRequestFnf _ _ fo _ _ | FRequestStream _ _ fo _ _ _
  | FRequestChannel _ _ fo _ _ _ _ | FPayload _ _ fo _ _ _ _ => fo
  | _ => false
  end.

(* _frame_fragment_builder: None = RSocketFrameFragmentDifferentType *)
Definition builder (c : cache) (nxt : frame) : option frame :=
  match cache_get c (fsid nxt) with
  | Some cur => if is_payload nxt then Some (merge cur nxt) else None
  | None => Some nxt    (* the fragment itself becomes the entry (flag self-assignment is a no-op) *)
  end.

(* FrameFragmentCache.append *)
Definition cache_append (c : cache) (f : frame) : cache * ares :=
  if ffollows f then
    match builder c f with
    | Some g => (cache_set c (fsid f) g, AAbsorbed)
    | None => (c, ARaise)
    end
  else
    match cache_get c (fsid f) with
    | Some _ => match builder c f with
                | Some g => (cache_remove c (fsid f), AFrame g)
                | None => (c, ARaise)
                end
    | None => (c, AFrame f)
    end.

Fixpoint cache_feed (c : cache) (fs : list frame) : cache * list ares :=
  match fs with
  | [] => (c, [])
  | f :: r => let (c1, a) := cache_append c f in let (c2, rs) := cache_feed c1 r in (c2, a :: rs)
  end.
