(* Model of the send queue of RSocketBase: send_frame, send_priority_frame, _requeue_partially_sent and
   _get_next_frame_to_send (one sender step).  A queued source is a frame together with the fragments
   it still has to emit (the fragment generator's remaining output).  Definitions only. *)
From Coq Require Import NArith List Bool Init.Byte.
From RSV Require Import gen.GenConst lib.Bytes model.Frame model.Fragmenter.
Import ListNotations.
Open Scope N_scope.

Record src := { s_sid : N; s_frags : list frame }.     (* s_frags is never empty for a queued source *)

Definition squeue := list src.

Section Cfg.
  Variable size : option N.     (* fragment_size_bytes *)
  Variable lenreq : bool.       (* transport.requires_length_header() *)

  (* what a queued frame will emit: fragmentable frames go through the fragmenter, the others are written as they are *)
  Definition emissions (f : frame) : list frame :=
    if is_fragmentable f then frame_fragments f size lenreq else [f].

  Definition mk_src (f : frame) : src := {| s_sid := fsid f; s_frags := emissions f |}.

  Definition enq (q : squeue) (f : frame) : squeue := q ++ [mk_src f].              (* send_frame *)
  Definition enq_priority (q : squeue) (f : frame) : squeue := mk_src f :: q.       (* send_priority_frame *)
End Cfg.

(* _requeue_partially_sent: ahead of the first queued item of the same stream, else at the end *)
Fixpoint reinsert (q : squeue) (s : src) : squeue :=
  match q with
  | [] => [s]
  | x :: r => if s_sid x =? s_sid s then s :: x :: r else x :: reinsert r s
  end.

(* the behaviour before fix fbd3cfd: rotate the partially sent source to the very back *)
Definition rotate_back (q : squeue) (s : src) : squeue := q ++ [s].

(* one sender step (_get_next_frame_to_send): the frame written and the queue afterwards *)
Definition send_step_with (requeue : squeue -> src -> squeue) (q : squeue) : option (frame * squeue) :=
  match q with
  | [] => None
  | s :: r =>
      match s_frags s with
      | [] => Some (FCancel 0 false, r)           (* unreachable: queued sources have emissions *)
      | [x] => Some (x, r)
      | x :: rest => Some (x, requeue r {| s_sid := s_sid s; s_frags := rest |})
      end
  end.

Definition send_step := send_step_with reinsert.

Inductive qlabel := QEnq (f : frame) | QPrio (f : frame) | QSend.

Record qstate := { q : squeue; wire : list frame }.

Definition qstep_with (requeue : squeue -> src -> squeue) (size : option N) (lenreq : bool) (s : qstate) (l : qlabel) : qstate :=
  match l with
  | QEnq f => {| q := enq size lenreq (q s) f; wire := wire s |}
  | QPrio f => {| q := enq_priority size lenreq (q s) f; wire := wire s |}
  | QSend => match send_step_with requeue (q s) with
             | Some (x, q') => {| q := q'; wire := wire s ++ [x] |}
             | None => s
             end
  end.

Definition qrun size lenreq (ls : list qlabel) : qstate :=
  fold_left (qstep_with reinsert size lenreq) ls {| q := []; wire := [] |}.
