(* Model of rsocket/lease.py (DefinedLease), RSocketBase.send_request / _queue_request_frame / handle_lease
   (requester side) and RSocketBase.send_lease / DefinedLease.to_frame (responder side).
   Virtual time in microseconds (Z).  Definitions only. *)
From Coq Require Import ZArith NArith List Bool Init.Byte.
From RSV Require Import gen.GenConst lib.Bytes model.Frame model.Setup.
Import ListNotations.
Open Scope Z_scope.

Record lease := { ln : Z;          (* maximum_request_count *)
                  lttl : Z;        (* maximum_lease_time, us *)
                  lcreated : Z;    (* _lease_created_at *)
                  lcount : Z }.    (* _request_counter *)

(* DefinedLease._is_request_allowed at time now: (answer, lease after the call) *)
Definition allowed (l : lease) (now : Z) : bool * lease :=
  if lcreated l + lttl l <=? now then (false, l)
  else let c := lcount l + 1 in
       (negb (ln l <? c), {| ln := ln l; lttl := lttl l; lcreated := lcreated l; lcount := c |}).

(* requester state *)
Record rq := { cur : lease;
               queue : list N;     (* request frames waiting for a lease (ids), oldest first *)
               qmax : nat;         (* request_queue_size; 0 = unbounded *)
               sent : list N;      (* request frames handed to send_frame, in order *)
               refused : list N }. (* requests whose caller got QueueFull *)

(* _reset_internals with honor_lease: DefinedLease(maximum_request_count=0), default ttl = MAX_31_BIT ms *)
Definition rq_init (t0 : Z) (qm : nat) : rq :=
  {| cur := {| ln := 0; lttl := Z.of_N MAX_31_BIT * 1000; lcreated := t0; lcount := 0 |};
     queue := []; qmax := qm; sent := []; refused := [] |}.

Inductive lev :=
| EReq (id : N) (now : Z)                 (* send_request(frame) for a request-initiating frame *)
| ELease (n : Z) (ttl_ms : Z) (now : Z).  (* a LEASE frame is handled *)

Definition lev_time (e : lev) : Z := match e with EReq _ t | ELease _ _ t => t end.

(* the drain loop of handle_lease: while queue not empty and is_request_allowed() *)
Fixpoint drain (q : list N) (l : lease) (now : Z) : list N * list N * lease :=
  match q with
  | [] => ([], [], l)
  | id :: r => let (ok, l') := allowed l now in
               if ok then let '(s, q', l'') := drain r l' now in (id :: s, q', l'')
               else ([], q, l')
  end.

Definition lstep (s : rq) (e : lev) : rq :=
  match e with
  | EReq id now =>
      let (ok, l') := allowed (cur s) now in
      if ok then {| cur := l'; queue := queue s; qmax := qmax s; sent := sent s ++ [id]; refused := refused s |}
      else if (negb (Nat.eqb (qmax s) 0) && Nat.leb (qmax s) (length (queue s)))%bool
           then {| cur := l'; queue := queue s; qmax := qmax s; sent := sent s; refused := refused s ++ [id] |}
           else {| cur := l'; queue := queue s ++ [id]; qmax := qmax s; sent := sent s; refused := refused s |}
  | ELease n ttl_ms now =>
      let l := {| ln := n; lttl := ttl_ms * 1000; lcreated := now; lcount := 0 |} in
      let '(snt, q', l') := drain (queue s) l now in
      {| cur := l'; queue := q'; qmax := qmax s; sent := sent s ++ snt; refused := refused s |}
  end.

Definition lrun (t0 : Z) (qm : nat) (evs : list lev) : rq := fold_left lstep evs (rq_init t0 qm).

(* responder: send_lease(DefinedLease(n, ttl)) queues LEASE(ttl in ms, n) *)
Definition announce (n : N) (ttl_us : Z) : frame := FLease 0 false (to_ms ttl_us) n [].
