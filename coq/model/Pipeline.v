(* The receiving pipeline above the transport, as a pure function: bytes read from the link in arbitrary chunks ->
   FrameParser (model/Parser.v) -> frames -> FrameFragmentCache for fragmentable frames (model/Fragmenter.v) ->
   complete frames reaching dispatch (rsocket_base.py _receiver_listen / _handle_next_frame).  Definitions only. *)
From Coq Require Import NArith List Bool Init.Byte.
From RSV Require Import gen.GenConst lib.Bytes model.Frame model.Parser model.Fragmenter model.SendQueue.
Import ListNotations.
Open Scope N_scope.

Definition rx_step (c : cache) (f : frame) : cache * list frame :=
  if is_fragmentable f then
    match cache_append c f with
    | (c', AFrame g) => (c', [g])
    | (c', _) => (c', [])
    end
  else (c, [f]).

Fixpoint rx (c : cache) (fs : list frame) : cache * list frame :=
  match fs with
  | [] => (c, [])
  | f :: r => let (c1, o1) := rx_step c f in let (c2, o2) := rx c1 r in (c2, o1 ++ o2)
  end.

Definition frames_of (items : list item) : list frame :=
  flat_map (fun i => match i with IFrame f => [f] | _ => [] end) items.

(* byte-stream framing: what reaches dispatch when the chunks have been read *)
Definition receive (bk : backend) (chunks : list bytes) : list frame :=
  snd (rx [] (frames_of (fst (feed_all (decode bk) [] chunks)))).

(* the bytes a sender writes for the frames of its wire, byte-stream framing *)
Definition wire_bytes (w : list frame) : bytes := concat (map (fun f => delimit (encode f)) w).

(* what the receiver is expected to hand to dispatch for the frames a sender queued, had they been sent one after
   the other (the per-stream projection does not depend on the interleaving: proofs/PipelineProofs.v) *)
Definition expected_rx (size : option N) (lenreq : bool) (queued : list frame) : list frame :=
  snd (rx [] (map norm (concat (map (emissions size lenreq) queued)))).
