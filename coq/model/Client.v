(* Model of the client connection manager (rsocket_client.py: connect, _connect_new_transport,
   _reconnect_listener, _close, keepalive timeout; rsocket_base.py: _on_connection_closed, stop_all_streams,
   _reset_internals) at the granularity of SETTLED steps: each action of the environment is followed by
   letting the event loop run until nothing is ready.  Definitions only. *)
From Coq Require Import NArith List Bool.
From RSV Require Import gen.GenConst.
Import ListNotations.
Open Scope N_scope.

Inductive wtag := WSetup | WReq (sid : N).      (* frames on a transport, keepalives left out *)

Inductive action :=
| AConnect                       (* await client.connect() *)
| AReq                           (* client.request_response(...) *)
| ARespond (sid : N)             (* the server answers request sid on the current connection *)
| ALoss                          (* the transport reports EOF or a read error *)
| AKaTimeout                     (* the server stays silent until on_keepalive_timeout runs *)
| AReconnect                     (* the application calls client.reconnect() on a healthy connection *)
| ATick.                         (* one keep-alive period passes *)

(* what the application's handler does in its callbacks *)
Record policy := { reconnect_on_close : bool; reconnect_on_timeout : bool }.

Record cl := {
  conn : nat;                    (* transports taken from the provider so far *)
  connected : bool;              (* sender/receiver tasks of a connection are running *)
  alive : bool;                  (* _is_server_alive *)
  last_id : N;                   (* StreamControl._current_stream_id of this connection; 0 before the first allocation *)
  pending : list N;              (* unresolved request-response futures (stream ids) of this connection *)
  wire : list wtag;              (* frames written on the current transport *)
  history : list (nat * list wtag);   (* finished connections: transport index, what was written on it *)
  closed : list nat;             (* transports on which close() was called *)
  failed : list (nat * N);       (* futures failed with a connection error: (transport, stream id) *)
  on_close_calls : nat;
  timeout_calls : nat;
  probes : nat                   (* keepalive probes seen in response to ATick on the current connection *)
}.

Definition cl_init : cl :=
  {| conn := 0; connected := false; alive := true; last_id := 0; pending := []; wire := []; history := [];
     closed := []; failed := []; on_close_calls := 0; timeout_calls := 0; probes := 0 |}.

(* [reset] : connect() resets the liveness state (fix ddd04f9); reset = false is the code before the fix *)
Definition open_connection (reset : bool) (s : cl) (idx : nat) : cl :=
  {| conn := idx; connected := true; alive := if reset then true else alive s; last_id := 0; pending := [];
     wire := if (if reset then true else alive s) then [WSetup] else [];
     history := history s; closed := closed s; failed := failed s; on_close_calls := on_close_calls s;
     timeout_calls := timeout_calls s; probes := probes s |}.

(* _on_connection_closed: fail everything pending, call on_close, stop the tasks *)
Definition connection_closed (s : cl) : cl :=
  {| conn := conn s; connected := false; alive := alive s; last_id := last_id s; pending := [];
     wire := wire s; history := history s; closed := closed s;
     failed := failed s ++ map (fun sid => ((conn s - 1)%nat, sid)) (pending s);
     on_close_calls := S (on_close_calls s); timeout_calls := timeout_calls s; probes := probes s |}.

(* _reconnect_listener: close the old transport, take the next one, connect *)
Definition do_reconnect (reset : bool) (s : cl) : cl :=
  let s1 := if connected s then connection_closed s
            else (* requests issued on a dead connection are failed before the internals are reset (stop_all_streams) *)
              {| conn := conn s; connected := false; alive := alive s; last_id := last_id s; pending := [];
                 wire := wire s; history := history s; closed := closed s;
                 failed := failed s ++ map (fun sid => ((conn s - 1)%nat, sid)) (pending s);
                 on_close_calls := on_close_calls s; timeout_calls := timeout_calls s; probes := probes s |} in
  let s2 := {| conn := conn s1; connected := false; alive := alive s1; last_id := last_id s1; pending := [];
               wire := []; history := history s1 ++ [((conn s1 - 1)%nat, wire s1)];
               closed := closed s1 ++ [(conn s1 - 1)%nat]; failed := failed s1;
               on_close_calls := on_close_calls s1; timeout_calls := timeout_calls s1; probes := probes s1 |} in
  open_connection reset s2 (S (conn s1)).

Definition next_id (s : cl) : N := if last_id s =? 0 then CLIENT_FIRST_STREAM_ID else last_id s + 2.

Definition cstep (reset : bool) (p : policy) (s : cl) (a : action) : cl :=
  match a with
  | AConnect => if Nat.eqb (conn s) 0 then open_connection reset s 1 else s
  | AReq =>
      if Nat.eqb (conn s) 0 then s else
      let sid := next_id s in
      {| conn := conn s; connected := connected s; alive := alive s; last_id := sid; pending := pending s ++ [sid];
         wire := if connected s && alive s then wire s ++ [WReq sid] else wire s;
         history := history s; closed := closed s; failed := failed s; on_close_calls := on_close_calls s;
         timeout_calls := timeout_calls s; probes := probes s |}
  | ARespond sid =>
      if connected s && alive s && existsb (N.eqb sid) (pending s) then
        {| conn := conn s; connected := connected s; alive := alive s; last_id := last_id s;
           pending := filter (fun x => negb (x =? sid)) (pending s);
           wire := wire s; history := history s; closed := closed s; failed := failed s;
           on_close_calls := on_close_calls s; timeout_calls := timeout_calls s; probes := probes s |}
      else s
  | ALoss =>
      if connected s then
        let s1 := connection_closed s in
        if reconnect_on_close p then do_reconnect reset s1 else s1
      else s
  | AKaTimeout =>
      if connected s && alive s then
        let s1 := {| conn := conn s; connected := connected s; alive := false; last_id := last_id s; pending := pending s;
                     wire := wire s; history := history s; closed := closed s; failed := failed s;
                     on_close_calls := on_close_calls s; timeout_calls := S (timeout_calls s); probes := probes s |} in
        if reconnect_on_timeout p then do_reconnect reset s1 else s1
      else s
  | AReconnect => if Nat.eqb (conn s) 0 then s else do_reconnect reset s
  | ATick =>
      if connected s && alive s then
        {| conn := conn s; connected := connected s; alive := alive s; last_id := last_id s; pending := pending s;
           wire := wire s; history := history s; closed := closed s; failed := failed s;
           on_close_calls := on_close_calls s; timeout_calls := timeout_calls s; probes := S (probes s) |}
      else s
  end.

Definition crun_client (reset : bool) (p : policy) (acts : list action) : cl := fold_left (cstep reset p) acts cl_init.
