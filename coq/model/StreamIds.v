(* Model of rsocket/stream_control.py: StreamControl.allocate_stream / register_stream /
   finish_stream.  Definitions only. *)
From Coq Require Import NArith PArith List Bool.
From RSV Require Import gen.GenConst lib.Iter.
Import ListNotations.
Open Scope N_scope.

Record sc := { cur : N; active : list N; maxid : N }.

Definition mem (x : N) (l : list N) : bool := existsb (N.eqb x) l.

(* StreamControl.__init__(first): current = (first - 2) & MAX_STREAM_ID on Python's unbounded
   ints (first = 1 gives -1 & mask = mask).  Adding MAX_STREAM_ID + 1 = 2^31 before the
   subtraction keeps the low 31 bits and stays in N.  The maximum is a separate field because
   the test-suite (and the correspondence) lower `_maximum_stream_id` after construction. *)
Definition sc_init (first : N) (mx : N) : sc :=
  {| cur := N.land (first + (MAX_STREAM_ID + 1) - 2) MAX_STREAM_ID; active := []; maxid := mx |}.

Definition incr (mx c : N) : N := N.land (c + 2) mx.

Definition id_ok (act : list N) (c : N) : bool :=
  negb (orb (c =? CONNECTION_STREAM_ID) (mem c act)).

(* `attempt_counter > maximum / 2` (float division) allows exactly maximum/2 + 1 attempts. *)
Definition attempts (mx : N) : positive := N.succ_pos (mx / 2).

(* allocate_stream: Some id and the new state, or None = RSocketStreamAllocationFailure
   (the state's current id is advanced in both cases, as in the code). *)
Definition allocate (s : sc) : option N * sc :=
  match find_pos (incr (maxid s)) (id_ok (active s)) (attempts (maxid s)) (cur s) with
  | inl c => (Some c, {| cur := c; active := active s; maxid := maxid s |})
  | inr c => (None, {| cur := c; active := active s; maxid := maxid s |})
  end.

(* register_stream: false = RuntimeError raised, nothing stored *)
Definition register (s : sc) (id : N) : bool * sc :=
  if orb (id =? CONNECTION_STREAM_ID) (maxid s <? id) then (false, s)
  else (true, {| cur := cur s; active := if mem id (active s) then active s else id :: active s;
                 maxid := maxid s |}).

Definition finish (s : sc) (id : N) : sc :=
  {| cur := cur s; active := filter (fun x => negb (x =? id)) (active s); maxid := maxid s |}.

(* Operations driven by the correspondence check *)
Inductive op := OAlloc | OAllocReg | ORegister (id : N) | OFinish (id : N).
Inductive res := RId (id : N) | RFail | ROk | RErr.

Definition res_eqb (a b : res) : bool :=
  match a, b with
  | RId x, RId y => x =? y | RFail, RFail => true | ROk, ROk => true | RErr, RErr => true
  | _, _ => false end.

Definition step (s : sc) (o : op) : res * sc :=
  match o with
  | OAlloc => match allocate s with (Some id, s') => (RId id, s') | (None, s') => (RFail, s') end
  | OAllocReg => match allocate s with
                 | (Some id, s') => (RId id, snd (register s' id))
                 | (None, s') => (RFail, s') end
  | ORegister id => let (b, s') := register s id in ((if b then ROk else RErr), s')
  | OFinish id => (ROk, finish s id)
  end.

Fixpoint run (s : sc) (ops : list op) : list res * sc :=
  match ops with
  | [] => ([], s)
  | o :: r => let (x, s') := step s o in let (xs, s'') := run s' r in (x :: xs, s'')
  end.
