(* Model of the keepalive logic: RSocketBase.handle_keep_alive (echo), RSocketClient._keepalive_send_task
   (periodic emission) and RSocketClient._keepalive_timeout_task (silence detector).  Virtual time in
   microseconds (Z).  Definitions only. *)
From Coq Require Import ZArith NArith List Bool Init.Byte.
From RSV Require Import gen.GenConst lib.Bytes model.Frame.
Import ListNotations.
Open Scope Z_scope.

(* handle_keep_alive: the frames queued in reaction to a received frame (only KEEPALIVE frames react) *)
Definition ka_echo (f : frame) : list frame :=
  match f with
  | FKeepalive sid ign respond pos d => if respond then [FKeepalive sid ign false pos d] else []
  | _ => []
  end.

(* to_keepalive_frame(b''): what the client's periodic task queues *)
Definition ka_probe : frame := FKeepalive 0 false true 0 [].

(* _keepalive_send_task started at t0 with period P and per-iteration timer lateness ds:
   the n-th probe is queued at t0 + sum_{i<=n} (P + d_i) *)
Fixpoint send_times (t0 P : Z) (ds : list Z) : list Z :=
  match ds with
  | [] => []
  | d :: r => let t := t0 + P + d in t :: send_times t P r
  end.

(* Events seen by the detector, in time order *)
Inductive ev := Arrive (t : Z)      (* a KEEPALIVE (either flag) was received: _update_last_keepalive *)
             | Check (t : Z).       (* asyncio.sleep(max_lifetime) returned *)

Definition ev_time (e : ev) : Z := match e with Arrive t | Check t => t end.

(* detector state: time of the last keepalive; output: the instants at which on_keepalive_timeout runs
   (and _is_server_alive becomes False) *)
Fixpoint detect (L : Z) (last : Z) (evs : list ev) : list Z :=
  match evs with
  | [] => []
  | Arrive t :: r => detect L t r
  | Check t :: r => if L <? t - last then t :: detect L last r else detect L last r
  end.

(* the check instants of _keepalive_timeout_task started at t0: c_0 = t0 + L + d_0, c_{k+1} = c_k + L + d_{k+1} *)
Fixpoint check_times (t0 L : Z) (ds : list Z) : list Z :=
  match ds with
  | [] => []
  | d :: r => let t := t0 + L + d in t :: check_times t L r
  end.

(* merge arrivals and checks by time; a check at the same instant as an arrival sees the arrival *)
Fixpoint merge_ev (fuel : nat) (arr chk : list Z) : list ev :=
  match fuel with
  | O => []
  | S k =>
    match arr, chk with
    | [], [] => []
    | a :: ar, [] => Arrive a :: merge_ev k ar []
    | [], c :: cr => Check c :: merge_ev k [] cr
    | a :: ar, c :: cr => if a <=? c then Arrive a :: merge_ev k ar chk else Check c :: merge_ev k arr cr
    end
  end.

Definition timeouts (L t0 : Z) (arrivals : list Z) (ds : list Z) : list Z :=
  let chk := check_times t0 L ds in
  detect L t0 (merge_ev (length arrivals + length chk) arrivals chk).
