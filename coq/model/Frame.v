(* Model of rsocket/frame.py + frame_helpers.py: the 14 frame types, serialize / serialize_frame_prefix /
   write_data_metadata / the length-prefixed partial write, and parse_or_ignore with both header
   back ends.  Definitions only.  Constants come from gen/GenConst.v (regenerated from the source). *)
From Coq Require Import NArith List Bool Init.Byte Strings.Byte.
From RSV Require Import gen.GenConst lib.Bytes.
Import ListNotations.
Open Scope N_scope.

Inductive backend := Native | Cbit.

Inductive frame :=
| FSetup (sid : N) (ign lease : bool) (major minor ka ml : N) (resume : option (N * bytes))
         (mdenc denc md d : bytes)
| FLease (sid : N) (ign : bool) (ttl n : N) (md : bytes)
| FKeepalive (sid : N) (ign respond : bool) (pos : N) (d : bytes)
| FRequestResponse (sid : N) (ign follows : bool) (md d : bytes)
| FRequestFnf (sid : N) (ign follows : bool) (md d : bytes)
| FRequestStream (sid : N) (ign follows : bool) (n : N) (md d : bytes)
| FRequestChannel (sid : N) (ign follows complete : bool) (n : N) (md d : bytes)
| FRequestN (sid : N) (ign : bool) (n : N)
| FCancel (sid : N) (ign : bool)
| FPayload (sid : N) (ign follows complete next : bool) (md d : bytes)
| FError (sid : N) (ign : bool) (code : N) (d : bytes)
| FMetadataPush (sid : N) (ign : bool) (md : bytes)
| FResume (sid : N) (ign : bool) (major minor : N) (token : bytes) (last_server first_client : N)
| FResumeOk (sid : N) (ign : bool) (pos : N).

Definition flag_set (flags bit : N) : bool := negb (N.land flags bit =? 0).
Definition fl (b : bool) (bit : N) : N := if b then bit else 0.

Definition ftype (f : frame) : N :=
  match f with
  | FSetup _ _ _ _ _ _ _ _ _ _ _ _ => FT_SETUP | FLease _ _ _ _ _ => FT_LEASE
  | FKeepalive _ _ _ _ _ => FT_KEEPALIVE | FRequestResponse _ _ _ _ _ => FT_REQUEST_RESPONSE
  | FRequestFnf _ _ _ _ _ => FT_REQUEST_FNF | FRequestStream _ _ _ _ _ _ => FT_REQUEST_STREAM
  | FRequestChannel _ _ _ _ _ _ _ => FT_REQUEST_CHANNEL | FRequestN _ _ _ => FT_REQUEST_N
  | FCancel _ _ => FT_CANCEL | FPayload _ _ _ _ _ _ _ => FT_PAYLOAD | FError _ _ _ _ => FT_ERROR
  | FMetadataPush _ _ _ => FT_METADATA_PUSH | FResume _ _ _ _ _ _ _ => FT_RESUME
  | FResumeOk _ _ _ => FT_RESUME_OK
  end.

Definition fsid (f : frame) : N :=
  match f with
  | FSetup s _ _ _ _ _ _ _ _ _ _ _ | FLease s _ _ _ _ | FKeepalive s _ _ _ _ | FRequestResponse s _ _ _ _
  | FRequestFnf s _ _ _ _ | FRequestStream s _ _ _ _ _ | FRequestChannel s _ _ _ _ _ _ | FRequestN s _ _
  | FCancel s _ | FPayload s _ _ _ _ _ _ | FError s _ _ _ | FMetadataPush s _ _ | FResume s _ _ _ _ _ _
  | FResumeOk s _ _ => s
  end.

Definition fign (f : frame) : bool :=
  match f with
  | FSetup _ i _ _ _ _ _ _ _ _ _ _ | FLease _ i _ _ _ | FKeepalive _ i _ _ _ | FRequestResponse _ i _ _ _
  | FRequestFnf _ i _ _ _ | FRequestStream _ i _ _ _ _ | FRequestChannel _ i _ _ _ _ _ | FRequestN _ i _
  | FCancel _ i | FPayload _ i _ _ _ _ _ | FError _ i _ _ | FMetadataPush _ i _ | FResume _ i _ _ _ _ _
  | FResumeOk _ i _ => i
  end.

Definition fmd (f : frame) : bytes :=
  match f with
  | FSetup _ _ _ _ _ _ _ _ _ _ md _ | FLease _ _ _ _ md | FRequestResponse _ _ _ md _
  | FRequestFnf _ _ _ md _ | FRequestStream _ _ _ _ md _ | FRequestChannel _ _ _ _ _ md _
  | FPayload _ _ _ _ _ md _ | FMetadataPush _ _ md => md
  | _ => []
  end.

Definition fdata (f : frame) : bytes :=
  match f with
  | FSetup _ _ _ _ _ _ _ _ _ _ _ d | FKeepalive _ _ _ _ d | FRequestResponse _ _ _ _ d
  | FRequestFnf _ _ _ _ d | FRequestStream _ _ _ _ _ d | FRequestChannel _ _ _ _ _ _ d
  | FPayload _ _ _ _ _ _ d | FError _ _ _ d => d
  | _ => []
  end.

(* Frame.metadata_only: LEASE and METADATA_PUSH carry metadata without a length field and no data *)
Definition md_only (f : frame) : bool :=
  match f with FLease _ _ _ _ _ | FMetadataPush _ _ _ => true | _ => false end.

Definition has_content (md d : bytes) : bool := negb (is_nil d) || negb (is_nil md).

(* type-specific flag bits set by each class's serialize_frame_prefix *)
Definition tflags (f : frame) : N :=
  match f with
  | FSetup _ _ lease _ _ _ _ resume _ _ _ _ =>
      N.lor (fl lease FLAG_LEASE_BIT) (fl (match resume with Some _ => true | None => false end) FLAG_RESUME_BIT)
  | FKeepalive _ _ respond _ _ => fl respond FLAG_RESPOND_BIT
  | FRequestResponse _ _ fo _ _ | FRequestFnf _ _ fo _ _ | FRequestStream _ _ fo _ _ _ => fl fo FLAG_FOLLOWS_BIT
  | FRequestChannel _ _ fo co _ _ _ => N.lor (fl co FLAG_COMPLETE_BIT) (fl fo FLAG_FOLLOWS_BIT)
  | FPayload _ _ fo co nx md d =>
      N.lor (N.lor (fl fo FLAG_FOLLOWS_BIT) (fl co FLAG_COMPLETE_BIT)) (fl (nx || has_content md d) FLAG_NEXT_BIT)
  | _ => 0
  end.

Definition pack_string (s : bytes) : bytes := byte_of_N (lenN s) :: s.

Definition middle (f : frame) : bytes :=
  match f with
  | FSetup _ _ _ major minor ka ml resume mdenc denc _ _ =>
      be 2 major ++ be 2 minor ++ be 4 ka ++ be 4 ml ++
      (match resume with Some (tl, tok) => be 2 tl ++ tok | None => [] end) ++
      pack_string mdenc ++ pack_string denc
  | FLease _ _ ttl n _ => be 4 (N.land ttl MASK_31_BITS) ++ be 4 (N.land n MASK_31_BITS)
  | FKeepalive _ _ _ pos _ => be 8 (N.land pos MASK_63_BITS)
  | FRequestStream _ _ _ n _ _ | FRequestChannel _ _ _ _ n _ _ | FRequestN _ _ n => be 4 n
  | FError _ _ code _ => be 4 code
  | FResume _ _ major minor token ls fc =>
      be 2 major ++ be 2 minor ++ be 2 (lenN token) ++ token ++
      be 8 (N.land ls MASK_63_BITS) ++ be 8 (N.land fc MASK_63_BITS)
  | FResumeOk _ _ pos => be 8 (N.land pos MASK_63_BITS)
  | _ => []
  end.

(* Frame.serialize_frame_prefix: clear I and M, set them from the fields *)
Definition all_flags (f : frame) : N :=
  N.lor (N.lor (N.ldiff (tflags f) (N.lor FLAG_IGNORE_BIT FLAG_METADATA_BIT)) (fl (fign f) FLAG_IGNORE_BIT))
        (fl (negb (is_nil (fmd f))) FLAG_METADATA_BIT).

Definition hdr_word (ty flags : N) : bytes :=
  [byte_of_N (N.lor (N.shiftl ty 2) (N.shiftr flags 8)); byte_of_N (N.land flags 255)].

Definition mk_header (sid ty flags : N) : bytes := be 4 sid ++ hdr_word ty flags.

Definition md_len_field (f : frame) : bytes :=
  if is_nil (fmd f) then [] else if md_only f then [] else be 3 (lenN (fmd f)).

Definition prefix (f : frame) : bytes :=
  mk_header (fsid f) (ftype f) (all_flags f) ++ middle f ++ md_len_field f.

Definition body_data (f : frame) : bytes := if md_only f then [] else fdata f.

(* Frame.serialize *)
Definition encode (f : frame) : bytes := prefix f ++ fmd f ++ body_data f.

(* Frame.compute_frame_length as serialize_frame_prefix stores it in frame.length *)
Definition frame_length (f : frame) : N :=
  HEADER_LENGTH + lenN (middle f) + (if is_nil (fmd f) then 0 else if md_only f then 0 else 3)
  + lenN (fmd f) + lenN (body_data f).

(* TransportTCP.serialize_partial: 3-byte length, prefix, then write_data_metadata *)
Definition encode_partial (f : frame) : bytes :=
  be 3 (frame_length f) ++ prefix f ++ fmd f ++ body_data f.

(* serialize_with_frame_size_header *)
Definition encode_prefixed (f : frame) : bytes := be 3 (lenN (encode f)) ++ encode f.

(* ------------------------------------------------------------------------------------------ *)
(* decoding *)

Inductive bres := BOk (f : frame) | BRaise | BUnmodelled.
Inductive dres := DOk (f : frame) | DIgnored | DInvalid | DUnmodelled.

Definition parse_word (b4 b5 : byte) : N * N :=
  let x := Byte.to_N b4 in (N.shiftr x 2, N.lor (Byte.to_N b5) (N.shiftl (N.land x 3) 8)).

Definition parse_sid (bk : backend) (v : N) : N :=
  match bk with Native => v | Cbit => N.land v MASK_31_BITS end.

Definition bind {A} (o : option (N * bytes)) (k : N -> bytes -> A) (dflt : A) : A :=
  match o with Some (v, r) => k v r | None => dflt end.

(* parse_metadata (with length field) followed by parse_data *)
Definition parse_md_data (flags : N) (rest : bytes) (k : bytes -> bytes -> frame) : bres :=
  if flag_set flags FLAG_METADATA_BIT then
    bind (get_be 3 rest) (fun n r => BOk (k (takeN r n) (dropN r n))) BRaise
  else BOk (k [] rest).

(* unpack_position on a chunk: cbitstruct needs at least 8 bytes, struct exactly 8 *)
Definition parse_position (bk : backend) (chunk : bytes) : option N :=
  match bk with
  | Native => if Nat.eqb (length chunk) 8 then Some (N.land (dec chunk) MASK_63_BITS) else None
  | Cbit => if Nat.ltb (length chunk) 8 then None else Some (N.land (dec (firstn 8 chunk)) MASK_63_BITS)
  end.

(* unpack_string: signed length byte; lengths >= 128 are negative in Python and make the
   parser walk backwards -- outside the model (reported as BUnmodelled). *)
Definition unpack_string (rest : bytes) (k : bytes -> bytes -> bres) : bres :=
  match rest with
  | [] => BRaise
  | b :: r => let n := Byte.to_N b in
              if 128 <=? n then BUnmodelled else k (takeN r n) (dropN r n)
  end.

Definition decode_body (bk : backend) (sid ty flags : N) (body : bytes) : bres :=
  let ign := flag_set flags FLAG_IGNORE_BIT in
  let f7 := flag_set flags FLAG_FOLLOWS_BIT in
  let f6 := flag_set flags FLAG_COMPLETE_BIT in
  let f5 := flag_set flags FLAG_NEXT_BIT in
  let hasmd := flag_set flags FLAG_METADATA_BIT in
  if ty =? FT_SETUP then
    bind (get_be 2 body) (fun major r =>
    bind (get_be 2 r) (fun minor r =>
    bind (get_be 4 r) (fun ka r =>
    bind (get_be 4 r) (fun ml r =>
      let after_token (resume : option (N * bytes)) (r : bytes) :=
        unpack_string r (fun mdenc r =>
        unpack_string r (fun denc r =>
          parse_md_data flags r (fun md d => FSetup sid ign f6 major minor ka ml resume mdenc denc md d))) in
      if f7 then bind (get_be 2 r) (fun tl r => after_token (Some (tl, takeN r tl)) (dropN r tl)) BRaise
      else after_token None r) BRaise) BRaise) BRaise) BRaise
  else if ty =? FT_LEASE then
    bind (get_be 4 body) (fun ttl r =>
    bind (get_be 4 r) (fun n r =>
      BOk (FLease sid ign (N.land ttl MASK_31_BITS) (N.land n MASK_31_BITS) (if hasmd then r else []))) BRaise) BRaise
  else if ty =? FT_KEEPALIVE then
    match parse_position bk (takeN body 8) with
    | Some pos => BOk (FKeepalive sid ign f7 pos (dropN body 8))
    | None => BRaise
    end
  else if ty =? FT_REQUEST_RESPONSE then parse_md_data flags body (fun md d => FRequestResponse sid ign f7 md d)
  else if ty =? FT_REQUEST_FNF then parse_md_data flags body (fun md d => FRequestFnf sid ign f7 md d)
  else if ty =? FT_REQUEST_STREAM then
    bind (get_be 4 body) (fun n r => parse_md_data flags r (fun md d => FRequestStream sid ign f7 n md d)) BRaise
  else if ty =? FT_REQUEST_CHANNEL then
    bind (get_be 4 body) (fun n r => parse_md_data flags r (fun md d => FRequestChannel sid ign f7 f6 n md d)) BRaise
  else if ty =? FT_REQUEST_N then
    bind (get_be 4 body) (fun n _ => BOk (FRequestN sid ign n)) BRaise
  else if ty =? FT_CANCEL then BOk (FCancel sid ign)
  else if ty =? FT_PAYLOAD then parse_md_data flags body (fun md d => FPayload sid ign f7 f6 f5 md d)
  else if ty =? FT_ERROR then
    bind (get_be 4 body) (fun code r =>
      if existsb (N.eqb code) error_code_ids then BOk (FError sid ign code r) else BRaise) BRaise
  else if ty =? FT_METADATA_PUSH then BOk (FMetadataPush sid ign (if hasmd then body else []))
  else if ty =? FT_RESUME then
    bind (get_be 2 body) (fun major r =>
    bind (get_be 2 r) (fun minor r =>
    bind (get_be 2 r) (fun tl r =>
      let tok := takeN r tl in let r := dropN r tl in
      match parse_position bk (takeN r 8) with
      | Some ls => match parse_position bk (dropN r 8) with
                   | Some fc => BOk (FResume sid ign major minor tok ls fc)
                   | None => BRaise end
      | None => BRaise
      end) BRaise) BRaise) BRaise
  else if ty =? FT_RESUME_OK then
    match parse_position bk (takeN body 8) with
    | Some pos => BOk (FResumeOk sid ign pos)
    | None => BRaise
    end
  else BRaise.

(* is_frame_to_ignore *)
Definition to_ignore (f : frame) : bool :=
  match f with FMetadataPush sid _ _ => negb (sid =? CONNECTION_STREAM_ID) | _ => false end.

(* parse_or_ignore, as seen by FrameParser (which turns every exception into InvalidFrame) *)
Definition decode (bk : backend) (buf : bytes) : dres :=
  match buf with
  | s0 :: s1 :: s2 :: s3 :: t0 :: t1 :: body =>
      let sid := parse_sid bk (dec [s0; s1; s2; s3]) in
      let '(ty, flags) := parse_word t0 t1 in
      if negb (existsb (N.eqb ty) frame_class_ids) then DInvalid   (* RSocketUnknownFrameType, raised outside the try *)
      else match decode_body bk sid ty flags body with
           | BOk f => if to_ignore f then DIgnored else DOk f
           | BRaise => if flag_set flags FLAG_IGNORE_BIT then DIgnored else DInvalid
           | BUnmodelled => DUnmodelled
           end
  | _ => DInvalid   (* ParseError: frame too short *)
  end.

(* the only normalisation of a round trip: a payload frame with content always carries NEXT *)
Definition norm (f : frame) : frame :=
  match f with
  | FPayload sid ign fo co nx md d => FPayload sid ign fo co (nx || has_content md d) md d
  | _ => f
  end.

(* field ranges of the wire format *)
Definition wf (f : frame) : bool :=
  (fsid f <? 2 ^ 31) && (lenN (fmd f) <? 2 ^ 24) &&
  match f with
  | FSetup _ _ _ major minor ka ml resume mdenc denc _ _ =>
      (major <? 2 ^ 16) && (minor <? 2 ^ 16) && (ka <? 2 ^ 32) && (ml <? 2 ^ 32) &&
      (lenN mdenc <? 128) && (lenN denc <? 128) &&
      match resume with Some (tl, tok) => (tl =? lenN tok) && (tl <? 2 ^ 16) | None => true end
  | FLease _ _ ttl n _ => (ttl <? 2 ^ 31) && (n <? 2 ^ 31)
  | FKeepalive _ _ _ pos _ => pos <? 2 ^ 63
  | FRequestStream _ _ _ n _ _ | FRequestChannel _ _ _ _ n _ _ | FRequestN _ _ n => n <? 2 ^ 32
  | FError _ _ code _ => existsb (N.eqb code) error_code_ids
  | FMetadataPush sid _ _ => sid =? 0
  | FResume _ _ major minor token ls fc =>
      (major <? 2 ^ 16) && (minor <? 2 ^ 16) && (lenN token <? 2 ^ 16) && (ls <? 2 ^ 63) && (fc <? 2 ^ 63)
  | FResumeOk _ _ pos => pos <? 2 ^ 63
  | _ => true
  end.

(* canonical field view used to compare frames in the correspondence files *)
Definition b2n (b : bool) : N := if b then 1 else 0.
Definition fields (f : frame) : N * list N * list bytes :=
  match f with
  | FSetup sid ign lease major minor ka ml resume mdenc denc md d =>
      (1, [sid; b2n ign; b2n lease; major; minor; ka; ml;
           match resume with Some (tl, _) => tl + 1 | None => 0 end],
       [match resume with Some (_, t) => t | None => [] end; mdenc; denc; md; d])
  | FLease sid ign ttl n md => (2, [sid; b2n ign; ttl; n], [md])
  | FKeepalive sid ign r pos d => (3, [sid; b2n ign; b2n r; pos], [d])
  | FRequestResponse sid ign fo md d => (4, [sid; b2n ign; b2n fo], [md; d])
  | FRequestFnf sid ign fo md d => (5, [sid; b2n ign; b2n fo], [md; d])
  | FRequestStream sid ign fo n md d => (6, [sid; b2n ign; b2n fo; n], [md; d])
  | FRequestChannel sid ign fo co n md d => (7, [sid; b2n ign; b2n fo; b2n co; n], [md; d])
  | FRequestN sid ign n => (8, [sid; b2n ign; n], [])
  | FCancel sid ign => (9, [sid; b2n ign], [])
  | FPayload sid ign fo co nx md d => (10, [sid; b2n ign; b2n fo; b2n co; b2n nx], [md; d])
  | FError sid ign code d => (11, [sid; b2n ign; code], [d])
  | FMetadataPush sid ign md => (12, [sid; b2n ign], [md])
  | FResume sid ign major minor token ls fc => (13, [sid; b2n ign; major; minor; ls; fc], [token])
  | FResumeOk sid ign pos => (14, [sid; b2n ign; pos], [])
  end.
