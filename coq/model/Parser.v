(* Model of rsocket/frame_parser.py (FrameParser.receive_data) in both framing modes, and of the
   read loop of transports/tcp.py feeding it chunk by chunk.  Definitions only.
   Parametric in the frame decoder (instantiated with Frame.decode in the correspondence). *)
From Coq Require Import NArith List Bool Init.Byte.
From RSV Require Import lib.Bytes model.Frame.
Import ListNotations.
Open Scope N_scope.

Inductive item := IFrame (f : frame) | IInvalid | IUnmodelled.

Definition items_of (r : dres) : list item :=
  match r with
  | DOk f => [IFrame f]
  | DIgnored => []
  | DInvalid => [IInvalid]
  | DUnmodelled => [IUnmodelled]
  end.

Section Parser.
  Variable decode : bytes -> dres.

  (* one complete length-prefixed frame at the front of the buffer, if any:
     Some (frame bytes, remaining buffer) *)
  Definition split_frame (buf : bytes) : option (bytes * bytes) :=
    if lenN buf <? 3 then None
    else let len := dec (takeN buf 3) in
         if lenN buf <? len + 3 then None
         else Some (takeN (dropN buf 3) len, dropN (dropN buf 3) len).

  (* the `while total >= 3` loop: fuel bounds the iterations; each consumes at least 3 bytes *)
  Fixpoint drain (fuel : nat) (buf : bytes) : list item * bytes :=
    match fuel with
    | O => ([], buf)
    | S k => match split_frame buf with
             | None => ([], buf)
             | Some (body, rest) => let (out, r) := drain k rest in (items_of (decode body) ++ out, r)
             end
    end.

  Definition drain_all (buf : bytes) : list item * bytes := drain (length buf) buf.

  (* receive_data(chunk) on a parser whose buffer is st *)
  Definition feed (st : bytes) (chunk : bytes) : list item * bytes := drain_all (st ++ chunk).

  Fixpoint feed_all (st : bytes) (chunks : list bytes) : list item * bytes :=
    match chunks with
    | [] => ([], st)
    | c :: cs => let (o1, st1) := feed st c in
                 let (o2, st2) := feed_all st1 cs in (o1 ++ o2, st2)
    end.

  (* message framing (header_length = 0), the loop as written:
       while total >= 0 and total > 0:  length = len(data); if total < length: return; parse; cut
     [guard] says whether the `total > 0` conjunct (the fix of the empty-message hang) is present. *)
  Fixpoint msg_loop (guard : bool) (fuel : nat) (buf : bytes) (n : N) : option (list item * bytes) :=
    match fuel with
    | O => None                                   (* out of fuel: the loop did not terminate *)
    | S k => if guard && (lenN buf =? 0) then Some ([], buf)
             else if lenN buf <? n then Some ([], buf)
             else match msg_loop guard k (dropN buf n) n with
                  | Some (out, r) => Some (items_of (decode (takeN buf n)) ++ out, r)
                  | None => None
                  end
    end.

  Definition msg_feed (guard : bool) (fuel : nat) (st data : bytes) : option (list item * bytes) :=
    msg_loop guard fuel (st ++ data) (lenN data).
End Parser.

(* a length-prefixed frame on the wire *)
Definition delimit (body : bytes) : bytes := be 3 (lenN body) ++ body.
