(* Model of the extension metadata codecs (C18), following the Python line by line:
     rsocket/helpers.py            serialize_well_known_encoding, parse_well_known_encoding
     rsocket/frame_helpers.py      serialize_128max_value, parse_type, unpack_24bit, pack_24bit (both back ends)
     rsocket/extensions/composite_metadata.py      CompositeMetadata.parse / serialize, metadata_item_factory
     rsocket/extensions/composite_metadata_item.py CompositeMetadataItem
     rsocket/extensions/tagging.py, routing.py     TaggingMetadata / RoutingMetadata
     rsocket/extensions/stream_data_mimetype.py    StreamDataMimetype / StreamDataMimetypes
     rsocket/extensions/authentication*.py         AuthenticationContent / Simple / Bearer
     rsocket/extensions/mimetypes.py, authentication_types.py   the id/name tables (gen/GenMime.v, regenerated)
   Definitions only.  Encodings are canonicalised to their NAME bytes (the harness maps enum members and
   WellKnownMimeType objects of the table to their names; for those the library uses [encoding.id], which is the
   id the table gives for the name).  [None] = the Python raises. *)
From Coq Require Import ZArith NArith List Bool Init.Byte Strings.Byte.
From Coq Require Strings.String.
Import Strings.String.StringSyntax.
From RSV Require Import lib.Bytes gen.GenMime model.Frame.
Import ListNotations.
Open Scope N_scope.

(* ------------------------------------------------------------------------------------------------ *)
(* Python dicts built by a comprehension over the enum: a later row with the same key wins. *)

Definition dict_get {V} (tbl : list (bytes * V)) (k : bytes) : option V :=
  fold_left (fun acc kv => if bytes_eqb (fst kv) k then Some (snd kv) else acc) tbl None.

(* map_type_names_by_id: id -> name *)
Definition dict_get_id (tbl : list (bytes * Z)) (i : Z) : option bytes :=
  fold_left (fun acc kv => if Z.eqb (snd kv) i then Some (fst kv) else acc) tbl None.

(* WellKnownMimeTypes.get_by_name / require_by_id (None = RSocketUnknownMimetype) *)
Definition mime_id_of_name (n : bytes) : option Z := dict_get mime_table n.
Definition mime_name_of_id (i : N) : option bytes := dict_get_id mime_table (Z.of_N i).
(* WellKnownAuthenticationTypes.get_by_name / require_by_id (None = RSocketUnknownAuthType) *)
Definition auth_id_of_name (n : bytes) : option Z := dict_get auth_table n.
Definition auth_name_of_id (i : N) : option bytes := dict_get_id auth_table (Z.of_N i).

(* composite_metadata.metadata_item_factory_by_type.get(name): generated table name -> kind
   (1 RoutingMetadata, 2 StreamDataMimetype, 3 StreamDataMimetypes, 4 AuthenticationContent) *)
Definition typed_kind (n : bytes) : option N := dict_get typed_entry_table n.

Definition ascii (s : String.string) : bytes := String.list_byte_of_string s.
Arguments ascii s%string_scope.

(* gen/GenMime.v ctor_encoding_table: the encoding each typed item class passes to CompositeMetadataItem.__init__
   (RoutingMetadata 1, StreamDataMimetype 2, StreamDataMimetypes 3, AuthenticationContent 4), kind -> name. *)
Definition ctor_encoding (kind : N) : bytes :=
  match find (fun p => fst p =? kind) ctor_encoding_table with Some (_, n) => n | None => [] end.

(* gen/GenMime.v auth_factory_table: authentication_content.metadata_item_factory_by_type (type name -> 1
   AuthenticationSimple, 2 AuthenticationBearer); auth_simple_type / auth_bearer_type: the [type] properties. *)

(* ------------------------------------------------------------------------------------------------ *)
(* values *)

Inductive auth := ASimple (user pass : bytes) | ABearer (token : bytes).
Inductive entry :=
| EItem (enc content : bytes)        (* CompositeMetadataItem(encoding, content) *)
| ERouting (tags : list bytes)       (* RoutingMetadata(tags) *)
| EDataMime (enc : bytes)            (* StreamDataMimetype(data_encoding) *)
| EAcceptMimes (encs : list bytes)   (* StreamDataMimetypes(data_encodings) *)
| EAuth (a : auth).                  (* AuthenticationContent(AuthenticationSimple|AuthenticationBearer) *)

(* ------------------------------------------------------------------------------------------------ *)
(* encoding *)

Definition byte_of_Z (z : Z) : byte := byte_of_N (Z.to_N z).

(* frame_helpers.serialize_128max_value: length-1 on Python ints; only > 127 is rejected, so the EMPTY name
   gives (-1) & 0x7f = 127 followed by no name bytes *)
Definition custom_header (l : Z) : byte := byte_of_Z (Z.land l 127).
Definition ser_128max (enc : bytes) : option bytes :=
  let l := (Z.of_nat (length enc) - 1)%Z in
  if (l >? 127)%Z then None (* RSocketMimetypeTooLong *)
  else Some (custom_header l :: enc).

(* helpers.serialize_well_known_encoding: (1 << 7) | known_type & 0b1111111, [&] binds tighter; ids -2/-1 give FE/FF *)
Definition known_header (id : Z) : byte := byte_of_Z (Z.lor 128 (Z.land id 127)).
Definition ser_wk (tbl : list (bytes * Z)) (enc : bytes) : option bytes :=
  match dict_get tbl enc with
  | Some id => Some [known_header id]
  | None => ser_128max enc
  end.

(* frame_helpers.pack_24bit: cbitstruct.pack('u24', n) raises from 2^24 on; struct.pack('>I', n)[1:] drops the
   top byte and raises from 2^32 on *)
Definition pack24 (bk : backend) (n : N) : option bytes :=
  match bk with
  | Cbit => if n <? 16777216 then Some (be 3 n) else None
  | Native => if n <? 4294967296 then Some (be 3 n) else None
  end.

(* TaggingMetadata._serialize_tags *)
Fixpoint ser_tags (tags : list bytes) : option bytes :=
  match tags with
  | [] => Some []
  | t :: r =>
      if 255 <? lenN t then None (* RSocketError *)
      else match ser_tags r with
           | Some s => Some (byte_of_N (lenN t) :: t ++ s)
           | None => None
           end
  end.

(* StreamDataMimetypes.serialize *)
Fixpoint ser_mimes (encs : list bytes) : option bytes :=
  match encs with
  | [] => Some []
  | e :: r =>
      match ser_wk mime_table e with
      | None => None
      | Some h => match ser_mimes r with Some s => Some (h ++ s) | None => None end
      end
  end.

(* Authentication*.serialize and .type; struct.pack('>I', len(username))[2:] keeps the low 16 bits *)
Definition auth_type (a : auth) : bytes :=
  match a with ASimple _ _ => auth_simple_type | ABearer _ => auth_bearer_type end.
Definition ser_auth_body (a : auth) : option bytes :=
  match a with
  | ASimple u p => if lenN u <? 4294967296 then Some (be 2 (lenN u) ++ u ++ p) else None
  | ABearer t => Some t
  end.

(* item.encoding of each entry *)
Definition entry_encoding (e : entry) : bytes :=
  match e with
  | EItem enc _ => enc
  | ERouting _ => ctor_encoding 1
  | EDataMime _ => ctor_encoding 2
  | EAcceptMimes _ => ctor_encoding 3
  | EAuth _ => ctor_encoding 4
  end.

(* item.serialize() *)
Definition entry_body (e : entry) : option bytes :=
  match e with
  | EItem _ c => Some c
  | ERouting tags => ser_tags tags
  | EDataMime enc => ser_wk mime_table enc
  | EAcceptMimes encs => ser_mimes encs
  | EAuth a =>
      match ser_wk auth_table (auth_type a) with
      | None => None
      | Some h => match ser_auth_body a with Some b => Some (h ++ b) | None => None end
      end
  end.

(* one iteration of CompositeMetadata.serialize *)
Definition enc_entry (bk : backend) (e : entry) : option bytes :=
  match ser_wk mime_table (entry_encoding e) with
  | None => None
  | Some h =>
      match entry_body e with
      | None => None
      | Some b => match pack24 bk (lenN b) with Some l => Some (h ++ l ++ b) | None => None end
      end
  end.

Fixpoint cm_encode_bk (bk : backend) (items : list entry) : option bytes :=
  match items with
  | [] => Some []
  | e :: r =>
      match enc_entry bk e with
      | None => None
      | Some x => match cm_encode_bk bk r with Some y => Some (x ++ y) | None => None end
      end
  end.

(* cbitstruct is the back end selected when it is installed *)
Definition cm_encode (items : list entry) : option bytes := cm_encode_bk Cbit items.

(* ------------------------------------------------------------------------------------------------ *)
(* decoding (identical under both back ends: parse_type and unpack_24bit agree, see the correspondence) *)

(* frame_helpers.parse_type: (is_known, 7-bit value); raises on an empty buffer *)
Definition parse_type (buf : bytes) : option (bool * N) :=
  match buf with
  | [] => None
  | b :: _ => let v := Byte.to_N b in Some (128 <=? v, v mod 128)
  end.

(* helpers.parse_well_known_encoding: (name, offset); the name slice is clamped, the offset is not *)
Definition parse_wk (by_id : N -> option bytes) (buf : bytes) : option (bytes * N) :=
  match parse_type buf with
  | None => None
  | Some (true, t) => match by_id t with Some n => Some (n, 1) | None => None end
  | Some (false, l) => let len := l + 1 in Some (takeN (tl buf) len, 1 + len)
  end.

(* TaggingMetadata.parse: never raises; a truncated last tag is accepted *)
Fixpoint parse_tags (fuel : nat) (buf : bytes) : list bytes :=
  match fuel with
  | O => []
  | S f =>
      match buf with
      | [] => []
      | b :: r => let n := Byte.to_N b in takeN r n :: parse_tags f (dropN r n)
      end
  end.

(* StreamDataMimetypes.parse *)
Fixpoint parse_mimes (fuel : nat) (buf : bytes) : option (list bytes) :=
  match buf with
  | [] => Some []
  | _ =>
      match fuel with
      | O => None
      | S f =>
          match parse_wk mime_name_of_id buf with
          | None => None
          | Some (n, off) =>
              match parse_mimes f (dropN buf off) with Some l => Some (n :: l) | None => None end
          end
      end
  end.

(* AuthenticationContent.parse: the type may also be spelled out; an unknown spelled-out name is a KeyError *)
Definition parse_auth (body : bytes) : option auth :=
  match parse_wk auth_name_of_id body with
  | None => None
  | Some (ty, off) =>
      match dict_get auth_factory_table ty with
      | None => None
      | Some k =>
          let rest := dropN body off in
          if k =? 1 then
            (* AuthenticationSimple.parse: struct.unpack('>I', b'\0\0' + buffer[:2]) raises on < 2 bytes *)
            match get_be 2 rest with
            | None => None
            | Some (ulen, r2) => Some (ASimple (takeN r2 ulen) (dropN r2 ulen))
            end
          else Some (ABearer rest)
      end
  end.

(* item = metadata_item_factory(encoding)(); item.parse(item_metadata) *)
Definition parse_item (enc body : bytes) : option entry :=
  match typed_kind enc with
  | None => Some (EItem enc body)
  | Some k =>
      if k =? 1 then Some (ERouting (parse_tags (length body) body))
      else if k =? 2 then
        match parse_wk mime_name_of_id body with Some (n, _) => Some (EDataMime n) | None => None end
      else if k =? 3 then
        match parse_mimes (length body) body with Some l => Some (EAcceptMimes l) | None => None end
      else match parse_auth body with Some a => Some (EAuth a) | None => None end
  end.

(* CompositeMetadata.parse: [buf] is metadata[offset:]; the item slice is clamped (a truncated last entry is
   accepted), unpack_24bit raises on fewer than 3 bytes *)
Fixpoint cm_decode_fuel (fuel : nat) (buf : bytes) : option (list entry) :=
  match buf with
  | [] => Some []
  | _ =>
      match fuel with
      | O => None
      | S f =>
          match parse_wk mime_name_of_id buf with
          | None => None
          | Some (enc, off) =>
              match get_be 3 (dropN buf off) with
              | None => None
              | Some (len, r2) =>
                  match parse_item enc (takeN r2 len) with
                  | None => None
                  | Some e =>
                      match cm_decode_fuel f (dropN r2 len) with
                      | Some es => Some (e :: es)
                      | None => None
                      end
                  end
              end
          end
      end
  end.

Definition cm_decode (buf : bytes) : option (list entry) := cm_decode_fuel (length buf) buf.

(* ------------------------------------------------------------------------------------------------ *)
(* well-formedness: the decidable side conditions of the round trip *)

(* a table name whose id is a real 7-bit id (not the two reserved rows), or a custom name of 1..128 bytes *)
Definition wf_name (n : bytes) : bool :=
  match mime_id_of_name n with
  | Some id => ((0 <=? id) && (id <=? 127))%Z
  | None => (1 <=? lenN n) && (lenN n <=? 128)
  end.

Definition body_fits (e : entry) : bool :=
  match entry_body e with Some b => lenN b <? 16777216 | None => false end.

Definition wf_entry (e : entry) : bool :=
  body_fits e &&
  match e with
  | EItem enc _ => wf_name enc && match typed_kind enc with None => true | Some _ => false end
  | ERouting tags => forallb (fun t => lenN t <=? 255) tags
  | EDataMime enc => wf_name enc
  | EAcceptMimes encs => forallb wf_name encs
  | EAuth (ASimple u _) => lenN u <? 65536
  | EAuth (ABearer _) => true
  end.

Definition wf_cm (items : list entry) : bool := forallb wf_entry items.

(* over-long inputs *)
Definition overlong_name (n : bytes) : bool :=
  match mime_id_of_name n with Some _ => false | None => 128 <? lenN n end.
Definition has_overlong (e : entry) : bool :=
  match e with
  | EItem enc _ => overlong_name enc
  | ERouting tags => existsb (fun t => 255 <? lenN t) tags
  | EDataMime enc => overlong_name enc
  | EAcceptMimes encs => existsb overlong_name encs
  | EAuth _ => false
  end.

(* ------------------------------------------------------------------------------------------------ *)
(* table checks (evaluated on the generated tables) *)

Fixpoint nodupb {A} (eqb : A -> A -> bool) (l : list A) : bool :=
  match l with
  | [] => true
  | x :: r => negb (existsb (eqb x) r) && nodupb eqb r
  end.

Definition reserved_names : list bytes :=
  [ascii "UNPARSEABLE_MIME_TYPE_DO_NOT_USE"; ascii "UNKNOWN_YET_RESERVED_DO_NOT_USE"].

Definition opt_bytes_eqb (a b : option bytes) : bool :=
  match a, b with Some x, Some y => bytes_eqb x y | None, None => true | _, _ => false end.
Definition opt_Z_eqb (a b : option Z) : bool :=
  match a, b with Some x, Some y => Z.eqb x y | None, None => true | _, _ => false end.

Definition table_ok (tbl : list (bytes * Z)) (reserved : list bytes) : bool :=
  nodupb bytes_eqb (map fst tbl) && nodupb Z.eqb (map snd tbl) &&
  forallb (fun kv => ((0 <=? snd kv) && (snd kv <=? 127))%Z || existsb (bytes_eqb (fst kv)) reserved) tbl &&
  forallb (fun kv => opt_Z_eqb (dict_get tbl (fst kv)) (Some (snd kv)) &&
                     opt_bytes_eqb (dict_get_id tbl (snd kv)) (Some (fst kv))) tbl.

(* ------------------------------------------------------------------------------------------------ *)
(* used to state that a hypothesis of the round trip is needed: encoding fails, or decoding the encoding does not
   give the entries back *)
Definition rt_fails (items : list entry) : Prop :=
  cm_encode items = None \/ exists bs, cm_encode items = Some bs /\ cm_decode bs <> Some items.

Definition user_65536 : bytes := repeat x61 (N.to_nat 65536).
