(* Model of the library's own stream sources as credit-driven producers:
   streams/stream_from_generator.py (StreamFromGenerator: request / queue_next_n / _generate_next_n /
   feed_subscriber / cancel), streams/stream_from_async_generator.py (same machine), and
   reactivex|rx_support/back_pressure_publisher.py (from_async_event_iterator: one EVENT per credit).
   Definitions only. *)
From Coq Require Import NArith List Bool.
Import ListNotations.
Open Scope N_scope.

(* what a subscriber can be handed *)
Inductive event :=
| ENext (p : N) (complete : bool)      (* on_next(payload p, is_complete) ; payload 0 is the empty payload *)
| EComplete                            (* on_complete() *)
| EError.                              (* on_error(...) *)

Definition terminal (e : event) : bool :=
  match e with ENext _ c => c | EComplete | EError => true end.

(* StreamFromGenerator: the generator yields (payload, is_complete) pairs; production stops after the first
   pair flagged complete; a generator exhausted without such a pair costs one more credit and produces
   on_next(Payload(), True) (FinishedIterator) *)
Fixpoint gen_events (src : list (N * bool)) : list event :=
  match src with
  | [] => [ENext 0 true]
  | (p, c) :: r => if c then [ENext p true] else ENext p false :: gen_events r
  end.

(* BackPressurePublisher over an observable emitting the values vs and then completing / failing:
   materialized notifications, the terminal one included, each costs one credit *)
Definition obs_events (vs : list N) (fails : bool) : list event :=
  map (fun v => ENext v false) vs ++ [if fails then EError else EComplete].

Record pst := {
  remaining : list event;    (* not yet produced *)
  reqq : list N;             (* _request_n_queue *)
  batch : N;                 (* iterations left in the current async_range(n) *)
  outq : list event;         (* produced, waiting for the payload feeder (StreamFromGenerator._queue) *)
  delivered : list event;    (* handed to the subscriber, oldest first *)
  producing : bool;          (* the n-feeder task is alive *)
  cancelled : bool
}.

Definition p_init (evs : list event) : pst :=
  {| remaining := evs; reqq := []; batch := 0; outq := []; delivered := []; producing := true; cancelled := false |}.

Inductive plabel :=
| PRequest (n : N)     (* Subscription.request(n) *)
| PNStep               (* the n-feeder task runs one step: takes the next request, or produces one event *)
| PPStep               (* the payload feeder hands one queued event to the subscriber *)
| PCancel.             (* Subscription.cancel() *)

Definition pstep (s : pst) (l : plabel) : pst :=
  match l with
  | PRequest n =>
      if cancelled s then s else
      {| remaining := remaining s; reqq := reqq s ++ [n]; batch := batch s; outq := outq s; delivered := delivered s;
         producing := producing s; cancelled := false |}
  | PNStep =>
      if cancelled s || negb (producing s) then s
      else if batch s =? 0 then
        match reqq s with
        | [] => s
        | n :: r => {| remaining := remaining s; reqq := r; batch := n; outq := outq s; delivered := delivered s;
                       producing := true; cancelled := false |}
        end
      else
        match remaining s with
        | [] => s
        | e :: r => {| remaining := r; reqq := reqq s; batch := if terminal e then 0 else batch s - 1;
                       outq := outq s ++ [e]; delivered := delivered s;
                       producing := negb (terminal e); cancelled := false |}
        end
  | PPStep =>
      if cancelled s then s else
      match outq s with
      | [] => s
      | e :: r => {| remaining := remaining s; reqq := reqq s; batch := batch s; outq := r;
                     delivered := delivered s ++ [e]; producing := producing s; cancelled := false |}
      end
  | PCancel =>
      {| remaining := remaining s; reqq := reqq s; batch := batch s; outq := outq s; delivered := delivered s;
         producing := false; cancelled := true |}
  end.

Definition prun (evs : list event) (ls : list plabel) : pst := fold_left pstep ls (p_init evs).

Definition requested (ls : list plabel) : N :=
  fold_left (fun acc l => match l with PRequest n => acc + n | _ => acc end) ls 0.

(* nothing more can happen without a new request *)
Definition is_nil_ev (l : list event) : bool := match l with [] => true | _ => false end.
Definition quiescent (s : pst) : bool :=
  cancelled s || (is_nil_ev (outq s) &&
                  (negb (producing s) || ((batch s =? 0) && match reqq s with [] => true | _ => false end))).

(* what a subscriber has received once everything granted so far has been worked off *)
(* (firstn with a binary counter: the credit may be 2^31-1) *)
Fixpoint firstnN (l : list event) (n : N) : list event :=
  match l with
  | [] => []
  | x :: r => if n =? 0 then [] else x :: firstnN r (N.pred n)
  end.
Definition settled (evs : list event) (credit : N) : list event := firstnN evs credit.
