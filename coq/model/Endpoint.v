(* Model of one RSocket endpoint above the codec: rsocket_base.py (_handle_next_frame, handle_* per frame
   type, send_* helpers, request_* API, stop_all_streams via stream_control.py) and the stream handlers
   handlers/*.py.  One label = one ATOMIC SECTION of the cooperative scheduler (handling of one received
   frame with a non-suspending application handler; one application call; one future done-callback; one
   signal of an application publisher; the close sweep).  Definitions only.

   Application objects are the environment: what the application's handler returns or raises, when its
   futures resolve and what its publishers emit are inputs carried by labels; what the library does to them
   (callbacks, cancellations) are effects. *)
From Coq Require Import NArith List Bool Init.Byte.
From RSV Require Import gen.GenConst lib.Bytes model.Frame model.Fragmenter model.StreamIds.
Import ListNotations.
Open Scope N_scope.

Inductive fut := FPending | FResolved | FCancelled.

Inductive hkind := KRRReq | KRRResp | KRSReq | KRSResp | KChanReq | KChanResp.

Record hobj := {
  o_kind : hkind;
  o_sid : N;
  o_fut : fut;            (* RRReq: the awaitable handed to the caller; RRResp: the application's response future *)
  o_responded : bool;     (* RRReq: _response_received *)
  o_sent : bool;          (* channel: _sent_complete *)
  o_recv : bool;          (* channel: _received_complete *)
  o_has_pub : bool;       (* channel: a local publisher was given and has called on_subscribe; RSResp: true *)
  o_has_sub : bool;       (* channel: remote_subscriber is set; RSReq: _subscriber is set *)
  o_n : N                 (* initial request-n to put in the request frame *)
}.

Definition mk_obj k sid : hobj :=
  {| o_kind := k; o_sid := sid; o_fut := FPending; o_responded := false; o_sent := false; o_recv := false;
     o_has_pub := false; o_has_sub := false; o_n := MAX_REQUEST_N |}.

Inductive signal := SSubscribe | SNext (md d : bytes) (complete : bool) | SComplete | SError.
Inductive pubop := PSubscribe | PRequestN (n : N) | PCancelOp.
Inductive hcall := HResponse | HStream | HChannel | HFnf | HMetaPush | HOnError | HOnSetup.

Inductive effect :=
| XEnq (f : frame)                       (* send_frame / send_request *)
| XFut (oid : nat) (ok : bool) (md d : bytes)   (* requester's awaitable resolved: with the payload (md, d) as its result
                                            (true) / with an exception (false; md = d = []) *)
| XCb (oid : nat) (s : signal)           (* signal delivered to the application's subscriber of object oid *)
| XPub (oid : nat) (p : pubop)           (* call on the application's publisher / its subscription *)
| XAppFutCancel (oid : nat)              (* the application's response future was cancelled by the library *)
| XHandler (k : hcall) (md d : bytes)    (* application handler invoked *)
| XRaised.                               (* an exception reached the caller of an application-side call *)

(* what the application's request handler does when invoked *)
Inductive outcome :=
| ORaise                                  (* raises *)
| OFuture                                 (* request_response: returns a future (resolved later by LAppResolve) *)
| OPublisher                              (* request_stream: returns a publisher that calls on_subscribe *)
| OChannel (has_pub has_sub : bool)       (* request_channel: returns (publisher or None, subscriber or None) *)
| ONone.                                  (* fire-and-forget / metadata-push / on_error: returns normally *)

Inductive appres := ARResult (md d : bytes) | ARError | ARCancel.

Inductive label :=
(* application calls on the endpoint *)
| LReqResponse (md d : bytes)
| LReqStream (md d : bytes)               (* request_stream(payload): allocates and registers, nothing sent yet *)
| LReqChannel (md d : bytes) (has_pub : bool)
| LInitialN (oid : nat) (n : N) (positive : bool)   (* .initial_request_n(n); positive = (n > 0) *)
| LSubscribe (oid : nat) (has_sub : bool) (md d : bytes)   (* .subscribe(subscriber or None) *)
| LFnf (md d : bytes)
| LMetaPush (md : bytes)
| LRequestN (oid : nat) (n : N)           (* Subscription.request(n) on a requester / channel *)
| LCancel (oid : nat)                     (* Subscription.cancel() on a requester / channel *)
| LFutCancel (oid : nat)                  (* the caller cancels a request-response awaitable *)
(* the application side of responders *)
| LAppResolve (oid : nat) (r : appres)    (* the application's response future gets a result / exception / is cancelled *)
| LPubNext (oid : nat) (md d : bytes) (complete : bool)
| LPubComplete (oid : nat)
| LPubError (oid : nat)
(* scheduler *)
| LFutCb (oid : nat) (r : appres)         (* the done-callback the library attached to object oid's future runs;
                                             r = the state of a responder's application future (ignored for requesters) *)
| LRecv (f : frame) (o : outcome)         (* one frame is handled; o = behaviour of the application handler if one is called *)
| LClose.                                 (* stop_all_streams(CONNECTION_ERROR) — _on_connection_closed *)

Record ep := {
  sc : StreamIds.sc;                     (* StreamControl: current id, active ids, maximum *)
  table : list (N * nat);                (* stream id -> object *)
  objs : list hobj;                      (* every handler object ever created, by creation index *)
  cachek : Fragmenter.cache              (* FrameFragmentCache *)
}.

Definition ep_init (first : N) : ep :=
  {| sc := sc_init first MAX_STREAM_ID; table := []; objs := []; cachek := [] |}.

(* ---------- small helpers ---------- *)
Fixpoint tget (t : list (N * nat)) (sid : N) : option nat :=
  match t with [] => None | (k, v) :: r => if k =? sid then Some v else tget r sid end.
Definition tremove (t : list (N * nat)) (sid : N) : list (N * nat) := filter (fun p => negb (fst p =? sid)) t.
Definition tset (t : list (N * nat)) (sid : N) (oid : nat) : list (N * nat) := (sid, oid) :: tremove t sid.

Fixpoint oset (l : list hobj) (i : nat) (o : hobj) : list hobj :=
  match l, i with
  | [], _ => []
  | _ :: r, O => o :: r
  | x :: r, S k => x :: oset r k o
  end.

(* RSocketBase.finish_stream: table entry and reassembly entry *)
Definition finish (e : ep) (sid : N) : ep :=
  {| sc := StreamIds.finish (sc e) sid; table := tremove (table e) sid; objs := objs e;
     cachek := cache_remove (cachek e) sid |}.

Definition set_obj (e : ep) (oid : nat) (o : hobj) : ep :=
  {| sc := sc e; table := table e; objs := oset (objs e) oid o; cachek := cachek e |}.

(* _register_stream *)
Definition register_obj (e : ep) (sid : N) (o : hobj) : ep :=
  {| sc := snd (StreamIds.register (sc e) sid); table := tset (table e) sid (length (objs e));
     objs := objs e ++ [o]; cachek := cachek e |}.

Definition upd_fut o f := {| o_kind := o_kind o; o_sid := o_sid o; o_fut := f; o_responded := o_responded o;
  o_sent := o_sent o; o_recv := o_recv o; o_has_pub := o_has_pub o; o_has_sub := o_has_sub o; o_n := o_n o |}.
Definition upd_responded o := {| o_kind := o_kind o; o_sid := o_sid o; o_fut := o_fut o; o_responded := true;
  o_sent := o_sent o; o_recv := o_recv o; o_has_pub := o_has_pub o; o_has_sub := o_has_sub o; o_n := o_n o |}.
Definition upd_marks o (s r : bool) := {| o_kind := o_kind o; o_sid := o_sid o; o_fut := o_fut o; o_responded := o_responded o;
  o_sent := o_sent o || s; o_recv := o_recv o || r; o_has_pub := o_has_pub o; o_has_sub := o_has_sub o; o_n := o_n o |}.
Definition upd_sub o (p s : bool) := {| o_kind := o_kind o; o_sid := o_sid o; o_fut := o_fut o; o_responded := o_responded o;
  o_sent := o_sent o; o_recv := o_recv o; o_has_pub := p; o_has_sub := s; o_n := o_n o |}.
Definition upd_n o n := {| o_kind := o_kind o; o_sid := o_sid o; o_fut := o_fut o; o_responded := o_responded o;
  o_sent := o_sent o; o_recv := o_recv o; o_has_pub := o_has_pub o; o_has_sub := o_has_sub o; o_n := n |}.

(* frames the endpoint builds *)
Definition f_error (sid code : N) (d : bytes) : frame := FError sid false code d.
Definition f_cancel (sid : N) : frame := FCancel sid false.
Definition f_request_n (sid n : N) : frame := FRequestN sid false n.
Definition f_payload (sid : N) (md d : bytes) (complete next : bool) : frame := FPayload sid false false complete next md d.

(* mark_completed_and_finish(received / sent): set the flags, finish when both are set *)
Definition chan_mark (e : ep) (oid : nat) (o : hobj) (s r : bool) : ep :=
  let o' := upd_marks o s r in
  let e' := set_obj e oid o' in
  if o_sent o' && o_recv o' then finish e' (o_sid o) else e'.

(* is the text of an ERROR frame decodable (error_frame_to_exception does data.decode('utf-8'))?  Input of the label. *)
Definition is_chan (k : hkind) : bool := match k with KChanReq | KChanResp => true | _ => false end.

(* ---------- a frame reaches a registered handler: <handler>.frame_received(frame) ---------- *)
(* [utf8]: the ERROR frame's data decodes as UTF-8.  Result: new endpoint, effects, raised? *)
Definition handler_frame (e : ep) (oid : nat) (o : hobj) (f : frame) (utf8 : bool) : ep * list effect * bool :=
  let sid := o_sid o in
  match o_kind o with
  | KRRReq =>
      match f with
      | FPayload _ _ _ _ _ md d =>
          let o1 := upd_responded o in
          match o_fut o with
          | FPending => (finish (set_obj e oid (upd_fut o1 FResolved)) sid, [XFut oid true md d], false)
          | _ => (finish (set_obj e oid o1) sid, [], false)
          end
      | FError _ _ _ _ =>
          let o1 := upd_responded o in
          match o_fut o with
          | FPending => if utf8 then (finish (set_obj e oid (upd_fut o1 FResolved)) sid, [XFut oid false [] []], false)
                        else (set_obj e oid o1, [], true)
          | _ => (finish (set_obj e oid o1) sid, [], false)
          end
      | _ => (e, [], false)
      end
  | KRRResp =>
      match f with
      | FCancel _ _ =>
          match o_fut o with
          | FPending => (finish (set_obj e oid (upd_fut o FCancelled)) sid, [XAppFutCancel oid], false)
          | _ => (finish e sid, [], false)
          end
      | _ => (e, [], false)
      end
  | KRSReq =>
      match f with
      | FPayload _ _ _ co nx md d =>
          if (nx || co) && negb (o_has_sub o) then (e, [], true)        (* _subscriber not set yet: AttributeError *)
          else
            let effs := if nx then [XCb oid (SNext md d co)] else if co then [XCb oid SComplete] else [] in
            ((if co then finish e sid else e), effs, false)
      | FError _ _ _ _ => if negb (o_has_sub o) then (e, [], true)
                          else if utf8 then (finish e sid, [XCb oid SError], false) else (e, [], true)
      | _ => (e, [], false)
      end
  | KRSResp =>
      match f with
      | FCancel _ _ => (finish e sid, [XPub oid PCancelOp], false)
      | FRequestN _ _ n => (e, [XPub oid (PRequestN n)], false)
      | FRequestStream _ _ _ n _ _ => (e, [XPub oid PSubscribe; XPub oid (PRequestN n)], false)
      | _ => (e, [], false)
      end
  | KChanReq | KChanResp =>
      match f with
      | FCancel _ _ =>
          if o_has_pub o then (chan_mark e oid o true false, [XPub oid PCancelOp], false)
          else (e, [], true)                                   (* subscription is None: AttributeError *)
      | FRequestN _ _ n => if o_has_pub o then (e, [XPub oid (PRequestN n)], false) else (e, [], false)
      | FPayload _ _ _ co nx md d =>
          if o_recv o then (e, [], false)      (* receive direction closed: payloads still in flight are dropped *)
          else if (nx || co) && negb (o_has_sub o) then (e, [], true)       (* remote_subscriber is None *)
          else
            let effs := if nx then [XCb oid (SNext md d co)] else if co then [XCb oid SComplete] else [] in
            ((if co then chan_mark e oid o false true else e), effs, false)
      | FError _ _ _ _ =>
          if o_recv o then (chan_mark e oid o false true, [], false)
          else if negb utf8 then (e, [], true)
          else if negb (o_has_sub o) then (e, [], true)
          else (chan_mark e oid o false true, [XCb oid SError], false)
      | _ => (e, [], false)
      end
  end.

(* the ERROR frame the receiver loop queues when handling raised: protocol errors keep their code *)
Definition raised_error (sid : N) (code : N) : effect := XEnq (f_error sid code []).

(* ---------- handling of one received frame (_handle_next_frame) ---------- *)
Definition is_request_type (f : frame) : bool := existsb (N.eqb (ftype f)) initiate_request_ids.

(* responder creation for a request frame whose id is free and whose handler returned *)
Definition open_responder (e : ep) (f : frame) (o : outcome) : ep * list effect :=
  let sid := fsid f in
  let oid := length (objs e) in
  match f, o with
  | FRequestResponse _ _ _ md d, OFuture =>
      (register_obj e sid (mk_obj KRRResp sid), [XHandler HResponse md d])
  | FRequestStream _ _ _ n md d, OPublisher =>
      let ob := upd_sub (mk_obj KRSResp sid) true false in
      (register_obj e sid ob, [XHandler HStream md d; XPub oid PSubscribe; XPub oid (PRequestN n)])
  | FRequestChannel _ _ _ co n md d, OChannel hp hs =>
      let ob := upd_sub (mk_obj KChanResp sid) hp hs in
      let e1 := register_obj e sid ob in
      (* subscribe(subscriber): on_subscribe to the application's subscriber, or mark received when None *)
      let '(e2, ob2, eff_sub) :=
        if hs then (e1, ob, [XCb oid SSubscribe])
        else (chan_mark e1 oid ob false true, upd_marks ob false true, []) in
      (* frame_received(request): setup subscribes our subscriber to the publisher *)
      let eff_pub := if hp then [XPub oid PSubscribe; XPub oid (PRequestN n)] else [XEnq (f_payload sid [] [] true false)] in
      let '(e3, ob3) := if hp then (e2, ob2) else (chan_mark e2 oid ob2 true false, upd_marks ob2 true false) in
      (* the request's own complete flag *)
      let '(e4, eff_co) :=
        if co then (chan_mark e3 oid ob3 false true, if hs then [XCb oid SComplete] else [])
        else (e3, []) in
      (e4, [XHandler HChannel md d] ++ eff_sub ++ eff_pub ++ eff_co)
  | _, _ => (e, [])
  end.

(* which handler runs is decided by the frame's type; the label only says whether it raises and, for a channel, which
   of publisher / subscriber it returns (anything else: both) *)
Definition default_outcome (f : frame) (o : outcome) : outcome :=
  match o with
  | ORaise => ORaise
  | _ => match f with
         | FRequestResponse _ _ _ _ _ => OFuture
         | FRequestStream _ _ _ _ _ _ => OPublisher
         | FRequestChannel _ _ _ _ _ _ _ => match o with OChannel hp hs => OChannel hp hs | _ => OChannel true true end
         | _ => o
         end
  end.

Definition recv_dispatch (e : ep) (f : frame) (o0 : outcome) (utf8 : bool) : ep * list effect :=
  let o := default_outcome f o0 in
  let sid := fsid f in
  if (sid =? CONNECTION_STREAM_ID) || is_request_type f then
    match f with
    | FRequestResponse _ _ _ md d | FRequestStream _ _ _ _ md d | FRequestChannel _ _ _ _ _ md d =>
        match tget (table e) sid with
        | Some _ => (e, [raised_error sid EC_REJECTED])                     (* RSocketStreamIdInUse *)
        | None =>
            match o with
            | ORaise => (e, [XHandler (match f with FRequestResponse _ _ _ _ _ => HResponse
                                                  | FRequestStream _ _ _ _ _ _ => HStream | _ => HChannel end) md d;
                             raised_error sid EC_APPLICATION_ERROR])
            | _ => if sid =? CONNECTION_STREAM_ID
                   then (e, [XHandler (match f with FRequestResponse _ _ _ _ _ => HResponse
                                                  | FRequestStream _ _ _ _ _ _ => HStream | _ => HChannel end) md d;
                             raised_error sid EC_APPLICATION_ERROR])   (* register_stream refuses stream 0 *)
                   else open_responder e f o
            end
        end
    | FRequestFnf _ _ _ md d =>
        match tget (table e) sid with
        | Some _ => (e, [raised_error sid EC_REJECTED])
        | None => (e, XHandler HFnf md d :: match o with ORaise => [raised_error sid EC_APPLICATION_ERROR] | _ => [] end)
        end
    | FMetadataPush _ _ md =>
        (e, XHandler HMetaPush md [] :: match o with ORaise => [raised_error sid EC_APPLICATION_ERROR] | _ => [] end)
    | FError _ _ _ d =>
        (e, XHandler HOnError [] d :: match o with ORaise => [raised_error sid EC_APPLICATION_ERROR] | _ => [] end)
    | FKeepalive s i respond pos d => (e, if respond then [XEnq (FKeepalive s i false pos d)] else [])
    | FResume _ _ _ _ _ _ _ => (e, [raised_error sid EC_REJECTED_RESUME])
    | _ => (e, [])         (* SETUP and LEASE are C16 / C14; every other type on stream 0 has no handler *)
    end
  else
    match tget (table e) sid with
    | None => (e, [])                                  (* dropped: unknown stream *)
    | Some oid =>
        match nth_error (objs e) oid with
        | None => (e, [])
        | Some ob =>
            let '(e', effs, raised) := handler_frame e oid ob f utf8 in
            (e', effs ++ if raised then [raised_error sid EC_APPLICATION_ERROR] else [])
        end
    end.

(* _is_fragment_of_unknown_stream: a PAYLOAD fragment (FOLLOWS set) which continues neither a frame of a registered
   stream nor a request that is being reassembled is dropped instead of being buffered *)
Definition stray_fragment (e : ep) (f : frame) : bool :=
  match f with
  | FPayload sid _ true _ _ _ _ =>
      match tget (table e) sid, cache_get (cachek e) sid with None, None => true | _, _ => false end
  | _ => false
  end.

(* reassembly first: fragmentable frames go through the cache *)
Definition recv_frame (e : ep) (f : frame) (o : outcome) (utf8 : bool) : ep * list effect :=
  if stray_fragment e f then (e, []) else
  if is_fragmentable f then
    let '(c', a) := cache_append (cachek e) f in
    let e1 := {| sc := sc e; table := table e; objs := objs e; cachek := c' |} in
    match a with
    | AAbsorbed => (e1, [])
    | ARaise => (e, [raised_error (fsid f) EC_APPLICATION_ERROR])      (* RSocketFrameFragmentDifferentType *)
    | AFrame g => recv_dispatch e1 g o utf8
    end
  else recv_dispatch e f o utf8.

(* StreamControl.finish_stream, as used by StreamControl.stop_all_streams: the table entry only — the reassembly
   cache is NOT touched on close (it is replaced on reconnect; a server endpoint is dead after close) *)
Definition finish_table (e : ep) (sid : N) : ep :=
  {| sc := StreamIds.finish (sc e) sid; table := tremove (table e) sid; objs := objs e; cachek := cachek e |}.

(* ---------- stop_all_streams ---------- *)
Definition is_requester (k : hkind) : bool := match k with KRRReq | KRSReq | KChanReq => true | _ => false end.

Definition close_one (e : ep) (sid : N) (oid : nat) : ep * list effect :=
  match nth_error (objs e) oid with
  | None => (finish_table e sid, [])
  | Some ob =>
      (* synthetic ERROR(CONNECTION_ERROR, b'') to requesters *)
      let '(e1, eff1) :=
        if is_requester (o_kind ob) then
          let '(e', effs, _) := handler_frame e oid ob (f_error sid EC_CONNECTION_ERROR []) true in (e', effs)
        else (e, []) in
      (* dispose() of disposables *)
      let ob1 := match nth_error (objs e1) oid with Some x => x | None => ob end in
      let '(e2, eff2) :=
        match o_kind ob1 with
        | KRRResp => match o_fut ob1 with
                     | FPending => (set_obj e1 oid (upd_fut ob1 FCancelled), [XAppFutCancel oid])
                     | _ => (e1, [])
                     end
        | KRSResp => (e1, [XPub oid PCancelOp])
        | KChanReq | KChanResp => (e1, if o_has_pub ob1 then [XPub oid PCancelOp] else [])
        | _ => (e1, [])
        end in
      (finish_table e2 sid, eff1 ++ eff2)
  end.

Fixpoint close_all (e : ep) (entries : list (N * nat)) : ep * list effect :=
  match entries with
  | [] => (e, [])
  | (sid, oid) :: r => let (e1, x1) := close_one e sid oid in let (e2, x2) := close_all e1 r in (e2, x1 ++ x2)
  end.

(* ---------- one atomic section ---------- *)
Definition alloc (e : ep) : option N * ep :=
  let (r, s') := StreamIds.allocate (sc e) in
  (r, {| sc := s'; table := table e; objs := objs e; cachek := cachek e |}).

Definition with_obj (e : ep) (oid : nat) (k : hobj -> ep * list effect) : ep * list effect :=
  match nth_error (objs e) oid with Some o => k o | None => (e, []) end.

(* [utf8] is an input of LRecv steps: carried separately to keep the label type small *)
Definition ep_step (utf8 : bool) (e : ep) (l : label) : ep * list effect :=
  match l with
  | LReqResponse md d =>
      match alloc e with
      | (Some sid, e1) => (register_obj e1 sid (mk_obj KRRReq sid), [XEnq (FRequestResponse sid false false md d)])
      | (None, e1) => (e1, [XRaised])
      end
  | LReqStream md d =>
      match alloc e with
      | (Some sid, e1) => (register_obj e1 sid (mk_obj KRSReq sid), [])
      | (None, e1) => (e1, [XRaised])
      end
  | LReqChannel md d hp =>
      match alloc e with
      | (Some sid, e1) => (register_obj e1 sid (upd_sub (mk_obj KChanReq sid) hp false), [])
      | (None, e1) => (e1, [XRaised])
      end
  | LInitialN oid n positive =>
      with_obj e oid (fun o => if positive then (set_obj e oid (upd_n o n), []) else (finish e (o_sid o), [XRaised]))
  | LSubscribe oid hs md d =>
      with_obj e oid (fun o =>
        match o_kind o with
        | KRSReq =>
            (set_obj e oid (upd_sub o false true),
             [XEnq (FRequestStream (o_sid o) false false (o_n o) md d); XCb oid SSubscribe])
        | KChanReq =>
            (* setup(): subscribe our subscriber to the local publisher; request frame; on_subscribe / mark received *)
            let hp := o_has_pub o in
            let o1 := upd_sub o hp hs in
            let e1 := set_obj e oid o1 in
            let req := XEnq (FRequestChannel (o_sid o) false false (negb hp) (o_n o) md d) in
            let '(e2, o2, effs) := if hs then (e1, o1, [XCb oid SSubscribe])
                                   else (chan_mark e1 oid o1 false true, upd_marks o1 false true, []) in
            let e3 := if hp then e2 else chan_mark e2 oid o2 true false in
            (e3, (if hp then [XPub oid PSubscribe] else []) ++ [req] ++ effs)
        | _ => (e, [])
        end)
  | LFnf md d =>
      match alloc e with
      | (Some sid, e1) =>
          (* the id is never registered; finish_stream(sid) runs when the last fragment has been written
             (sent_future) — merged into this step: traces are recorded with the sender running freely *)
          (finish e1 sid, [XEnq (FRequestFnf sid false false md d)])
      | (None, e1) => (e1, [XRaised])
      end
  | LMetaPush md => (e, [XEnq (FMetadataPush 0 false md)])
  | LRequestN oid n => with_obj e oid (fun o => (e, [XEnq (f_request_n (o_sid o) n)]))
  | LCancel oid =>
      with_obj e oid (fun o =>
        match o_kind o with
        | KRSReq => (finish e (o_sid o), [XEnq (f_cancel (o_sid o))])
        | KChanReq | KChanResp => (chan_mark e oid o false true, [XEnq (f_cancel (o_sid o))])
        | _ => (e, [])
        end)
  | LFutCancel oid =>
      with_obj e oid (fun o => match o_fut o with
                               | FPending => (set_obj e oid (upd_fut o FCancelled), [])
                               | _ => (e, [])
                               end)
  | LFutCb oid r =>
      with_obj e oid (fun o =>
        match o_kind o with
        | KRRReq => match o_fut o with
                    | FCancelled => if o_responded o then (e, [])
                                    else (finish e (o_sid o), [XEnq (f_cancel (o_sid o))])
                    | _ => (e, [])
                    end
        | KRRResp =>            (* RequestResponseResponder.future_done *)
            match r with
            | ARResult md d => (finish e (o_sid o), [XEnq (f_payload (o_sid o) md d true true)])
            | ARError => (finish e (o_sid o), [XEnq (f_error (o_sid o) EC_APPLICATION_ERROR [])])
            | ARCancel => (finish e (o_sid o), [])
            end
        | _ => (e, [])
        end)
  | LAppResolve oid r =>       (* the application completes its response future; the library's callback runs later (LFutCb) *)
      with_obj e oid (fun o =>
        match o_kind o, o_fut o with
        | KRRResp, FPending =>
            (set_obj e oid (upd_fut o (match r with ARCancel => FCancelled | _ => FResolved end)), [])
        | _, _ => (e, [])
        end)
  | LPubNext oid md d c =>
      with_obj e oid (fun o =>
        match o_kind o with
        | KRSResp => ((if c then finish e (o_sid o) else e), [XEnq (f_payload (o_sid o) md d c true)])
        | KChanReq | KChanResp => ((if c then chan_mark e oid o true false else e), [XEnq (f_payload (o_sid o) md d c true)])
        | _ => (e, [])
        end)
  | LPubComplete oid =>
      with_obj e oid (fun o =>
        match o_kind o with
        | KRSResp => (finish e (o_sid o), [XEnq (f_payload (o_sid o) [] [] true false)])
        | KChanReq | KChanResp => (chan_mark e oid o true false, [XEnq (f_payload (o_sid o) [] [] true false)])
        | _ => (e, [])
        end)
  | LPubError oid =>
      with_obj e oid (fun o =>
        match o_kind o with
        | KRSResp => (finish e (o_sid o), [XEnq (f_error (o_sid o) EC_APPLICATION_ERROR [])])
        | KChanReq | KChanResp => (chan_mark e oid o true false, [XEnq (f_error (o_sid o) EC_APPLICATION_ERROR [])])
        | _ => (e, [])
        end)
  | LRecv f o => recv_frame e f o utf8
  | LClose => close_all e (rev (table e))      (* dict order: oldest registration first *)
  end.

Fixpoint ep_run (e : ep) (ls : list (label * bool)) : ep * list (list effect) :=
  match ls with
  | [] => (e, [])
  | (l, u) :: r => let (e1, x) := ep_step u e l in let (e2, xs) := ep_run e1 r in (e2, x :: xs)
  end.
