(* Model of the setup handshake: frame_builders.to_setup_frame + datetime_helpers.to_milliseconds
   (client side), RSocketClient.connect/_connect_new_transport + RSocketBase.connect/send_priority_frame/_sender
   (what precedes what on a new connection), RSocketBase.handle_setup / handle_resume (server decision).
   Definitions only. *)
From Coq Require Import ZArith NArith List Bool Init.Byte.
From RSV Require Import gen.GenConst lib.Bytes model.Frame.
Import ListNotations.
Open Scope N_scope.

(* to_milliseconds(timedelta of us microseconds) = round(total_seconds() * 1000).
   Integer model (round half up); the float expression agrees with it except possibly at exact .5 ms
   ties and is exact on whole milliseconds: validated by the correspondence, see C16_ms_* *)
Definition to_ms (us : Z) : N := Z.to_N ((us + 500) / 1000).

Record client_cfg := {
  ka_us : Z; ml_us : Z; honor_lease : bool; md_enc : bytes; d_enc : bytes; setup_payload : option (bytes * bytes)
}.

(* to_setup_frame(payload, data_encoding, metadata_encoding, keep_alive, max_lifetime, honor_lease) *)
Definition setup_frame (c : client_cfg) : frame :=
  let '(md, d) := match setup_payload c with Some p => p | None => ([], []) end in
  FSetup 0 false (honor_lease c) PROTOCOL_MAJOR_VERSION PROTOCOL_MINOR_VERSION
         (to_ms (ka_us c)) (to_ms (ml_us c)) None (md_enc c) (d_enc c) md d.

Definition wf_cfg (c : client_cfg) : bool :=
  (0 <=? ka_us c)%Z && (ka_us c <? 4294967295000)%Z && (0 <=? ml_us c)%Z && (ml_us c <? 4294967295000)%Z
  && (lenN (md_enc c) <? 128) && (lenN (d_enc c) <? 128)
  && match setup_payload c with Some (md, _) => lenN md <? 2 ^ 24 | None => true end.

(* ---------- what reaches the wire first on a new connection ---------- *)
(* frames are abstracted to tags; TSetup is the SETUP frame *)
Inductive tag := TSetup | TOther (n : N).

Record conn := { ready : bool;        (* transport future resolved: the sender may run *)
                 queue : list tag;    (* the send queue *)
                 wire : list tag }.   (* frames written to the transport, oldest first *)

Definition conn_init : conn := {| ready := false; queue := []; wire := [] |}.

Inductive clabel :=
| LApp (n : N)          (* the application queues a frame (send_frame) at any moment after connect() started *)
| LSuspend              (* the provider or transport.connect() suspends: another task may run *)
| LTransportReady       (* a transport was obtained: send_priority_frame(SETUP) and set_result(transport), one atomic section
                           (transport.connect() is awaited afterwards: LSuspend) *)
| LSend.                (* one sender step *)

(* the defect repaired by fix c522af0 — the transport future was resolved before awaiting transport.connect() while
   SETUP was queued only after it: the sender could run before SETUP was queued. *)
Inductive elabel := E (l : clabel) | EPublishEarly | EQueueSetup.

Definition cstep (s : conn) (l : clabel) : conn :=
  match l with
  | LApp n => {| ready := ready s; queue := queue s ++ [TOther n]; wire := wire s |}
  | LSuspend => s
  | LTransportReady => if ready s then s else {| ready := true; queue := TSetup :: queue s; wire := wire s |}
  | LSend => if ready s then
               match queue s with
               | [] => s
               | x :: r => {| ready := true; queue := r; wire := wire s ++ [x] |}
               end
             else s
  end.

Definition crun (ls : list clabel) : conn := fold_left cstep ls conn_init.

(* the pre-fix behaviour, for the record *)
Definition estep (s : conn) (l : elabel) : conn :=
  match l with
  | E l' => match l' with LTransportReady => s | _ => cstep s l' end
  | EPublishEarly => {| ready := true; queue := queue s; wire := wire s |}
  | EQueueSetup => {| ready := ready s; queue := TSetup :: queue s; wire := wire s |}
  end.

(* ---------- the server's decision ---------- *)
Inductive setup_outcome :=
| SAccept (denc mdenc md d : bytes) (subscribe_lease : bool)   (* on_setup called once with these; lease publisher subscribed *)
| SError (sid code : N)                                        (* ERROR frame on stream sid *)
| SDropped.                                                    (* not handled as a setup (non-zero stream id) *)

(* handle_setup / handle_resume as reached from _handle_next_frame; [has_lease_pub]: a lease publisher is
   configured; [on_setup_raises]: what the application's on_setup does *)
Definition server_decision (f : frame) (has_lease_pub on_setup_raises : bool) : setup_outcome :=
  match f with
  | FSetup sid _ lease _ _ _ _ resume mdenc denc md d =>
      if negb (sid =? CONNECTION_STREAM_ID) then SDropped
      else match resume with
           | Some _ => SError sid EC_UNSUPPORTED_SETUP
           | None => if lease && negb has_lease_pub then SError sid EC_UNSUPPORTED_SETUP
                     else if on_setup_raises then SError sid EC_REJECTED_SETUP
                     else SAccept denc mdenc md d lease
           end
  | FResume sid _ _ _ _ _ _ =>
      if negb (sid =? CONNECTION_STREAM_ID) then SDropped else SError sid EC_REJECTED_RESUME
  | _ => SDropped
  end.
