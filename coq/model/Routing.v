(* Model of rsocket/routing/request_router.py (RequestRouter: the decorators, route,
   _collect_route_arguments, _get_unknown_route, _route_map_by_frame_type),
   rsocket/routing/routing_request_handler.py (RoutingRequestHandler: the five request methods,
   _parse_and_route, _verify_authentication) and rsocket/extensions/helpers.py (require_route).
   Definitions only.

   Abstraction (the byte level of composite metadata is C18's business): a request's metadata is either
   unparseable (CompositeMetadata.parse raises, or payload.metadata is None) or the list of parsed items,
   of which only three kinds matter here: RoutingMetadata (its tag list), AuthenticationContent (an
   identifier of the credentials) and anything else.  A route name is the UTF-8 encoding of the Python
   str (str <-> valid UTF-8 is a bijection, so equality of names is equality of strs); a tag is either
   valid UTF-8 (Tag name) or not (BadTag: `.decode()` raises UnicodeDecodeError). *)
From Coq Require Import NArith List Bool Init.Byte.
From RSV Require Import gen.GenConst lib.Bytes.
Import ListNotations.
Open Scope N_scope.

Definition name := bytes.

(* ------------------------------------------------------------------------------------------------ *)
(* Handlers (RouteInfo = method + its inspect.signature) *)

(* a parameter's annotation: none, Payload, CompositeMetadata, or any other object (identified by a number) *)
Inductive annot := AnEmpty | AnPayload | AnComposite | AnOther (cls : N).
(* p_named_cm: the parameter is called `composite_metadata` *)
Record param := { p_named_cm : bool; p_annot : annot }.
(* what the registered coroutine does when awaited: returns a Future / a Payload / something else, or raises *)
Inductive hbeh := HRetFuture | HRetPayload | HRetOther | HRaise.
Record handler := { hid : N; hparams : list param; hdoes : hbeh }.

(* ------------------------------------------------------------------------------------------------ *)
(* RequestRouter state: five dicts and the Handlers dataclass *)

Inductive slot := SlChannel | SlStream | SlResponse | SlFnf | SlPush.
    (* _channel_routes | _stream_routes | _response_routes | _fnf_routes | _metadata_push *)
Inductive ufield := UResponse | UStream | UChannel | UFnf | UPush.
    (* Handlers.response | .stream | .channel | .fire_and_forget | .metadata_push *)
Inductive deco := DResponse | DStream | DChannel | DFnf | DPush.
    (* RequestRouter.response / stream / channel / fire_and_forget / metadata_push and their *_unknown twins *)
Inductive meth := MChannel | MFnf | MResponse | MStream | MPush.
    (* RoutingRequestHandler.request_channel / request_fire_and_forget / request_response / request_stream /
       on_metadata_push *)
(* what the `except Exception` clause of a request method hands back *)
Inductive errkind :=
  | EChannelStream   (* return ErrorStream(exception), NullSubscriber() *)
  | ESwallowed       (* logger().error(...) only; the method returns None *)
  | EFuture          (* return create_error_future(exception) *)
  | EStream.         (* return ErrorStream(exception) *)

Definition routes := list (name * handler).     (* dict in insertion order; keys are unique by construction *)

Record tables := {
  t_channel : routes; t_stream : routes; t_response : routes; t_fnf : routes; t_push : routes;
  u_response : option handler; u_stream : option handler; u_channel : option handler;
  u_fnf : option handler; u_push : option handler }.

Definition empty_tables : tables :=
  {| t_channel := []; t_stream := []; t_response := []; t_fnf := []; t_push := [];
     u_response := None; u_stream := None; u_channel := None; u_fnf := None; u_push := None |}.

Definition get_slot (s : slot) (tb : tables) : routes :=
  match s with SlChannel => t_channel tb | SlStream => t_stream tb | SlResponse => t_response tb
             | SlFnf => t_fnf tb | SlPush => t_push tb end.

Definition set_slot (s : slot) (r : routes) (tb : tables) : tables :=
  match s with
  | SlChannel => {| t_channel := r; t_stream := t_stream tb; t_response := t_response tb; t_fnf := t_fnf tb;
                    t_push := t_push tb; u_response := u_response tb; u_stream := u_stream tb;
                    u_channel := u_channel tb; u_fnf := u_fnf tb; u_push := u_push tb |}
  | SlStream => {| t_channel := t_channel tb; t_stream := r; t_response := t_response tb; t_fnf := t_fnf tb;
                   t_push := t_push tb; u_response := u_response tb; u_stream := u_stream tb;
                   u_channel := u_channel tb; u_fnf := u_fnf tb; u_push := u_push tb |}
  | SlResponse => {| t_channel := t_channel tb; t_stream := t_stream tb; t_response := r; t_fnf := t_fnf tb;
                     t_push := t_push tb; u_response := u_response tb; u_stream := u_stream tb;
                     u_channel := u_channel tb; u_fnf := u_fnf tb; u_push := u_push tb |}
  | SlFnf => {| t_channel := t_channel tb; t_stream := t_stream tb; t_response := t_response tb; t_fnf := r;
                t_push := t_push tb; u_response := u_response tb; u_stream := u_stream tb;
                u_channel := u_channel tb; u_fnf := u_fnf tb; u_push := u_push tb |}
  | SlPush => {| t_channel := t_channel tb; t_stream := t_stream tb; t_response := t_response tb; t_fnf := t_fnf tb;
                 t_push := r; u_response := u_response tb; u_stream := u_stream tb;
                 u_channel := u_channel tb; u_fnf := u_fnf tb; u_push := u_push tb |}
  end.

Definition get_unknown (u : ufield) (tb : tables) : option handler :=
  match u with UResponse => u_response tb | UStream => u_stream tb | UChannel => u_channel tb
             | UFnf => u_fnf tb | UPush => u_push tb end.

Definition set_unknown (u : ufield) (h : option handler) (tb : tables) : tables :=
  match u with
  | UResponse => {| t_channel := t_channel tb; t_stream := t_stream tb; t_response := t_response tb; t_fnf := t_fnf tb;
                    t_push := t_push tb; u_response := h; u_stream := u_stream tb;
                    u_channel := u_channel tb; u_fnf := u_fnf tb; u_push := u_push tb |}
  | UStream => {| t_channel := t_channel tb; t_stream := t_stream tb; t_response := t_response tb; t_fnf := t_fnf tb;
                  t_push := t_push tb; u_response := u_response tb; u_stream := h;
                  u_channel := u_channel tb; u_fnf := u_fnf tb; u_push := u_push tb |}
  | UChannel => {| t_channel := t_channel tb; t_stream := t_stream tb; t_response := t_response tb; t_fnf := t_fnf tb;
                   t_push := t_push tb; u_response := u_response tb; u_stream := u_stream tb;
                   u_channel := h; u_fnf := u_fnf tb; u_push := u_push tb |}
  | UFnf => {| t_channel := t_channel tb; t_stream := t_stream tb; t_response := t_response tb; t_fnf := t_fnf tb;
               t_push := t_push tb; u_response := u_response tb; u_stream := u_stream tb;
               u_channel := u_channel tb; u_fnf := h; u_push := u_push tb |}
  | UPush => {| t_channel := t_channel tb; t_stream := t_stream tb; t_response := t_response tb; t_fnf := t_fnf tb;
                t_push := t_push tb; u_response := u_response tb; u_stream := u_stream tb;
                u_channel := u_channel tb; u_fnf := u_fnf tb; u_push := h |}
  end.

(* ------------------------------------------------------------------------------------------------ *)
(* Tables read off the source.  (* TO BE GENERATED *) — exact source shapes:
   - route_map_by_frame_type: the dict literal assigned to self._route_map_by_frame_type in
     RequestRouter.__init__, `FrameType.X: self._y` pairs in source order;
   - unknown_route_chain: the if/elif chain of RequestRouter._get_unknown_route,
     `frame_type == FrameType.X: return self._unknown.f` pairs in source order (falling off the end = None);
   - deco_slot: each decorator method `def d(self, route): return decorator_factory(self._y, route)`;
   - deco_unknown: each `def d_unknown(self)` whose wrapper does `self._unknown.f = RouteInfo(function)`;
   - meth_frame_type / meth_error / meth_returns: each RoutingRequestHandler request method
     `try: [return] await self._parse_and_route(FrameType.X, payload)  except Exception ...: <what it returns>`. *)

Definition route_map_by_frame_type : list (N * slot) :=   (* TO BE GENERATED *)
  [(FT_REQUEST_CHANNEL, SlChannel); (FT_REQUEST_FNF, SlFnf); (FT_REQUEST_STREAM, SlStream);
   (FT_REQUEST_RESPONSE, SlResponse); (FT_METADATA_PUSH, SlPush)].

Definition unknown_route_chain : list (N * ufield) :=     (* TO BE GENERATED *)
  [(FT_REQUEST_RESPONSE, UResponse); (FT_REQUEST_STREAM, UStream); (FT_REQUEST_CHANNEL, UChannel);
   (FT_REQUEST_FNF, UFnf); (FT_METADATA_PUSH, UPush)].

Definition deco_slot (d : deco) : slot :=                 (* TO BE GENERATED *)
  match d with DResponse => SlResponse | DStream => SlStream | DChannel => SlChannel | DFnf => SlFnf
             | DPush => SlPush end.

Definition deco_unknown (d : deco) : ufield :=            (* TO BE GENERATED *)
  match d with DResponse => UResponse | DStream => UStream | DChannel => UChannel | DFnf => UFnf
             | DPush => UPush end.

Definition meth_frame_type (m : meth) : N :=              (* TO BE GENERATED *)
  match m with MChannel => FT_REQUEST_CHANNEL | MFnf => FT_REQUEST_FNF | MResponse => FT_REQUEST_RESPONSE
             | MStream => FT_REQUEST_STREAM | MPush => FT_METADATA_PUSH end.

Definition meth_error (m : meth) : errkind :=             (* TO BE GENERATED *)
  match m with MChannel => EChannelStream | MFnf => ESwallowed | MResponse => EFuture | MStream => EStream
             | MPush => ESwallowed end.

(* `return await self._parse_and_route(...)` (true) or a bare `await` whose value is dropped (false) *)
Definition meth_returns (m : meth) : bool :=              (* TO BE GENERATED *)
  match m with MChannel => true | MFnf => false | MResponse => true | MStream => true | MPush => false end.

(* the frame type after which RequestRouter.route wraps a non-Future result in a future *)
Definition wrap_frame_type : N := FT_REQUEST_RESPONSE.    (* TO BE GENERATED *)

(* ------------------------------------------------------------------------------------------------ *)
(* Registration: the decorators *)

Fixpoint lookup_route (n : name) (rs : routes) : option handler :=
  match rs with
  | [] => None
  | (k, h) :: r => if bytes_eqb n k then Some h else lookup_route n r
  end.

(* One decorator application.  Reg d route h: `@router.d(route)` on h (route None is Python's None);
   RegUnknown d h: `@router.d_unknown()` on h. *)
Inductive reg := Reg (d : deco) (route : option name) (h : handler) | RegUnknown (d : deco) (h : handler).

(* decorator_factory(container, route)(function); None = it raised (RSocketEmptyRoute / KeyError) and the
   router is unchanged *)
Definition register (tb : tables) (r : reg) : option tables :=
  match r with
  | Reg d rt h =>
      let container := get_slot (deco_slot d) tb in
      match rt with
      | None => None                                   (* safe_len(None) == 0 *)
      | Some n =>
          if lenN n =? 0 then None                     (* RSocketEmptyRoute *)
          else match lookup_route n container with
               | Some _ => None                        (* KeyError('Duplicate route ...') *)
               | None => Some (set_slot (deco_slot d) (container ++ [(n, h)]) tb)
               end
      end
  | RegUnknown d h => Some (set_unknown (deco_unknown d) (Some h) tb)    (* overwrites silently *)
  end.

(* a module body applying decorators one after the other, going on after one that raised *)
Fixpoint build_from (tb : tables) (rs : list reg) : tables :=
  match rs with
  | [] => tb
  | r :: rest => build_from (match register tb r with Some tb' => tb' | None => tb end) rest
  end.
Definition build (rs : list reg) : tables := build_from empty_tables rs.

(* which applications raised (compared with the implementation) *)
Fixpoint build_raised (tb : tables) (rs : list reg) : list bool :=
  match rs with
  | [] => []
  | r :: rest => match register tb r with
                 | Some tb' => false :: build_raised tb' rest
                 | None => true :: build_raised tb rest
                 end
  end.

(* ------------------------------------------------------------------------------------------------ *)
(* Requests *)

Inductive tag := Tag (n : name) | BadTag.
Inductive entry := ERoute (tags : list tag) | EAuth (a : N) | EOther.
Inductive metadata := MUnparseable | MItems (l : list entry).

(* the verifier: None = not configured; Some f: f route credentials = true when the coroutine returns,
   false when it raises *)
Definition verifier := option (name -> N -> bool).

(* where the exception that ends a request came from *)
Inductive why :=
  | WParse          (* CompositeMetadata.parse raised *)
  | WNoRoute        (* Exception('No route found in request') *)
  | WEmptyTags      (* IndexError: tags[0] of an empty routing entry *)
  | WBadTag         (* UnicodeDecodeError *)
  | WAuthMissing    (* Exception('Authentication required but not provided') *)
  | WAuthRejected   (* whatever the verifier raised *)
  | WNoTable        (* KeyError: frame type not in _route_map_by_frame_type *)
  | WUnknownRoute   (* RSocketUnknownRoute *)
  | WDeserialize    (* the payload deserializer raised *)
  | WHandler        (* the route's coroutine raised *)
  | WSerialize.     (* the payload serializer raised *)

(* extensions/helpers.py require_route *)
Fixpoint require_route (l : list entry) : why + name :=
  match l with
  | [] => inl WNoRoute
  | ERoute tags :: _ =>
      match tags with
      | [] => inl WEmptyTags
      | BadTag :: _ => inl WBadTag
      | Tag n :: _ => inr n
      end
  | _ :: r => require_route r
  end.

Fixpoint first_auth (l : list entry) : option N :=
  match l with
  | [] => None
  | EAuth a :: _ => Some a
  | _ :: r => first_auth r
  end.

(* RoutingRequestHandler._verify_authentication; None = returned normally *)
Definition verify_authentication (v : verifier) (route : name) (l : list entry) : option why :=
  match v with
  | None => None
  | Some f => match first_auth l with
              | Some a => if f route a then None else Some WAuthRejected
              | None => Some WAuthMissing
              end
  end.

(* ------------------------------------------------------------------------------------------------ *)
(* RequestRouter.route *)

Fixpoint assocN {A} (k : N) (l : list (N * A)) : option A :=
  match l with
  | [] => None
  | (k', v) :: r => if k =? k' then Some v else assocN k r
  end.

(* what a parameter is bound to *)
Inductive argval := VComposite | VPayload | VDeserialized (cls : N).

Definition annot_is_composite (a : annot) : bool := match a with AnComposite => true | _ => false end.

(* _collect_route_arguments; des_ok cls = false when payload_deserializer(cls, payload) raises; None = it raised *)
Fixpoint collect_route_arguments (des_ok : N -> bool) (ps : list param) : option (list argval) :=
  match ps with
  | [] => Some []
  | p :: r =>
      if p_named_cm p || annot_is_composite (p_annot p)
      then option_map (cons VComposite) (collect_route_arguments des_ok r)
      else match p_annot p with
           | AnOther c => if des_ok c then option_map (cons (VDeserialized c)) (collect_route_arguments des_ok r)
                          else None
           | _ => option_map (cons VPayload) (collect_route_arguments des_ok r)
           end
  end.

(* what the requester side gets when nothing raised *)
Inductive delivery :=
  | DAsIs          (* the coroutine's own return value *)
  | DFuture        (* create_future(result) around a returned Payload *)
  | DFutureSer     (* create_future(payload_serializer(return_annotation, result)) *)
  | DNone.         (* the request method drops the value (fire-and-forget, metadata-push) *)

Inductive routed :=
  | RRaised (w : why)                                     (* before any coroutine was called *)
  | RRan (h : handler) (args : list argval) (res : why + delivery).

Definition route (tb : tables) (des_ok : N -> bool) (ser_ok : bool) (ft : N) (r : name) : routed :=
  match assocN ft route_map_by_frame_type with
  | None => RRaised WNoTable
  | Some s =>
      let route_info :=
        match lookup_route r (get_slot s tb) with
        | Some h => Some h
        | None => match assocN ft unknown_route_chain with       (* _get_unknown_route *)
                  | Some u => get_unknown u tb
                  | None => None
                  end
        end in
      match route_info with
      | None => RRaised WUnknownRoute
      | Some h =>
          match collect_route_arguments des_ok (hparams h) with
          | None => RRaised WDeserialize
          | Some args =>
              RRan h args
                (match hdoes h with
                 | HRaise => inl WHandler
                 | HRetFuture => inr DAsIs
                 | HRetPayload => inr (if ft =? wrap_frame_type then DFuture else DAsIs)
                 | HRetOther => if ft =? wrap_frame_type
                                then (if ser_ok then inr DFutureSer else inl WSerialize)
                                else inr DAsIs
                 end)
          end
      end
  end.

(* ------------------------------------------------------------------------------------------------ *)
(* RoutingRequestHandler: _parse_and_route inside each request method's try/except *)

Inductive result := Delivered (d : delivery) | Failed (k : errkind) (w : why).
Inductive outcome :=
  | Ran (h : N) (args : list argval) (r : result)     (* exactly this registered coroutine was called, once *)
  | ErrorOn (k : errkind) (w : why).                  (* no registered coroutine was called *)

Definition parse_and_route (tb : tables) (v : verifier) (des_ok : N -> bool) (ser_ok : bool)
                           (ft : N) (md : metadata) : routed :=
  match md with
  | MUnparseable => RRaised WParse
  | MItems l =>
      match require_route l with
      | inl w => RRaised w
      | inr r =>
          match verify_authentication v r l with
          | Some w => RRaised w
          | None => route tb des_ok ser_ok ft r
          end
      end
  end.

Definition dispatch (tb : tables) (v : verifier) (des_ok : N -> bool) (ser_ok : bool)
                    (m : meth) (md : metadata) : outcome :=
  match parse_and_route tb v des_ok ser_ok (meth_frame_type m) md with
  | RRaised w => ErrorOn (meth_error m) w
  | RRan h args (inl w) => Ran (hid h) args (Failed (meth_error m) w)
  | RRan h args (inr d) => Ran (hid h) args (Delivered (if meth_returns m then d else DNone))
  end.

(* ------------------------------------------------------------------------------------------------ *)
(* Specification vocabulary used by the theorems (not part of the code's behaviour) *)

(* which decorator serves which request method *)
Definition deco_of_meth (m : meth) : deco :=
  match m with MChannel => DChannel | MFnf => DFnf | MResponse => DResponse | MStream => DStream
             | MPush => DPush end.

Definition deco_eqb (a b : deco) : bool :=
  match a, b with DResponse, DResponse | DStream, DStream | DChannel, DChannel | DFnf, DFnf | DPush, DPush => true
                | _, _ => false end.

(* the handler of the first `@router.d(n)` in the program, for a non-empty n (later ones raise KeyError) *)
Fixpoint first_registered (rs : list reg) (d : deco) (n : name) : option handler :=
  match rs with
  | [] => None
  | Reg d' (Some n') h :: rest =>
      if deco_eqb d d' && bytes_eqb n n' && negb (lenN n' =? 0) then Some h else first_registered rest d n
  | _ :: rest => first_registered rest d n
  end.

(* the handler of the last `@router.d_unknown()` in the program *)
Fixpoint last_unknown (rs : list reg) (d : deco) : option handler :=
  match rs with
  | [] => None
  | RegUnknown d' h :: rest =>
      match last_unknown rest d with
      | Some h' => Some h'
      | None => if deco_eqb d d' then Some h else None
      end
  | _ :: rest => last_unknown rest d
  end.

(* the handler a request of method m and route n is meant for *)
Definition selected (rs : list reg) (m : meth) (n : name) : option handler :=
  match first_registered rs (deco_of_meth m) n with
  | Some h => Some h
  | None => last_unknown rs (deco_of_meth m)
  end.

(* what a parameter is meant to receive *)
Definition arg_of (p : param) : argval :=
  if p_named_cm p then VComposite
  else match p_annot p with
       | AnComposite => VComposite
       | AnOther c => VDeserialized c
       | AnEmpty | AnPayload => VPayload
       end.

Definition needs_deserializer (p : param) : option N :=
  if p_named_cm p then None else match p_annot p with AnOther c => Some c | _ => None end.

(* what the requester of method m gets once handler behaviour b was selected and called *)
Definition expected_result (m : meth) (ser_ok : bool) (b : hbeh) : result :=
  match b with
  | HRaise => Failed (meth_error m) WHandler
  | HRetFuture => Delivered (match m with MFnf | MPush => DNone | _ => DAsIs end)
  | HRetPayload => Delivered (match m with MFnf | MPush => DNone | MResponse => DFuture | _ => DAsIs end)
  | HRetOther => match m with
                 | MFnf | MPush => Delivered DNone
                 | MResponse => if ser_ok then Delivered DFutureSer else Failed (meth_error m) WSerialize
                 | _ => Delivered DAsIs
                 end
  end.
