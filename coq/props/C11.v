(* C11 — Connection loss or close fails everything pending, exactly once.
   Statements only; proofs in proofs/EndpointProofs.v, proofs/EndpointSignals.v; model in model/Endpoint.v
   (LClose = stop_all_streams as run by _on_connection_closed).  The byte level (a cut at any offset delivers a prefix
   of the frames and leaves at most an incomplete frame behind) is C04_prefix / C04_terminates.  What the tasks do
   (on_close once, no sends afterwards, keepalive stopped) is runtime behaviour checked on the real endpoint. *)
From Coq Require Import Arith NArith List Bool Init.Byte.
From RSV Require Import gen.GenConst lib.Bytes model.Frame model.Parser model.Fragmenter model.StreamIds model.Endpoint
     proofs.ParserProofs proofs.EndpointProofs proofs.EndpointSignals proofs.EndpointSweep.
Import ListNotations.
Open Scope N_scope.

(* the sweep visits every registered stream (oldest first) ... *)
Theorem C11_sweep_unfolds e sid oid r :
  close_all e ((sid, oid) :: r) =
  (let (e1, x1) := close_one e sid oid in let (e2, x2) := close_all e1 r in (e2, x1 ++ x2)).
Proof. reflexivity. Qed.
Print Assumptions C11_sweep_unfolds.

(* ... and does to each what its kind requires: a pending request is failed (once), a stream/channel subscriber is
   failed (unless its direction had already completed), handler futures and publishers are cancelled *)
Theorem C11_close_by_kind e sid oid ob : nth_error (objs e) oid = Some ob -> o_sid ob = sid ->
  snd (close_one e sid oid) =
  match o_kind ob with
  | KRRReq => match o_fut ob with FPending => [XFut oid false [] []] | _ => [] end
  | KRRResp => match o_fut ob with FPending => [XAppFutCancel oid] | _ => [] end
  | KRSReq => if o_has_sub ob then [XCb oid SError] else []
  | KRSResp => [XPub oid PCancelOp]
  | KChanReq => (if o_recv ob then [] else if o_has_sub ob then [XCb oid SError] else [])
                ++ (if o_has_pub ob then [XPub oid PCancelOp] else [])
  | KChanResp => if o_has_pub ob then [XPub oid PCancelOp] else []
  end.
Proof. exact (close_one_effects e sid oid ob). Qed.
Print Assumptions C11_close_by_kind.

(* THE WHOLE SWEEP, from every reachable state: what the application is told when the connection is lost is exactly,
   for every stream registered at that moment (oldest registration first) and judged by that stream's state at that
   moment, the pending request failed / the open subscriber failed / the handler future or publisher cancelled — each
   once, nothing else, nothing for streams that are not registered *)
Theorem C11_sweep_complete : forall u e, Inv e -> snd (ep_step u e LClose) = sweep_of e (rev (table e)).
Proof. exact close_sweep_complete. Qed.
Print Assumptions C11_sweep_complete.
Theorem C11_sweep_per_object : forall ob oid, close_effects ob oid =
  match o_kind ob with
  | KRRReq => match o_fut ob with FPending => [XFut oid false [] []] | _ => [] end
  | KRRResp => match o_fut ob with FPending => [XAppFutCancel oid] | _ => [] end
  | KRSReq => if o_has_sub ob then [XCb oid SError] else []
  | KRSResp => [XPub oid PCancelOp]
  | KChanReq => (if o_recv ob then [] else if o_has_sub ob then [XCb oid SError] else [])
                ++ (if o_has_pub ob then [XPub oid PCancelOp] else [])
  | KChanResp => if o_has_pub ob then [XPub oid PCancelOp] else []
  end.
Proof. intros. reflexivity. Qed.
Print Assumptions C11_sweep_per_object.

(* sweeping one entry leaves every other object as it was, so each is treated according to its own state *)
Theorem C11_close_other_objects e sid oid j : j <> oid ->
  nth_error (objs (fst (close_one e sid oid))) j = nth_error (objs e) j.
Proof. exact (close_one_other_objs e sid oid j). Qed.
Print Assumptions C11_close_other_objects.

(* afterwards nothing is registered, from every reachable state (so nothing can be delivered or sent for a stream) *)
Theorem C11_close_empties u e : Inv e -> table (fst (ep_step u e LClose)) = [].
Proof. exact (close_empties u e). Qed.
Print Assumptions C11_close_empties.

(* exactly once: over the whole sweep an awaitable is resolved at most once and a subscriber gets at most one signal,
   and none if it had already been terminated *)
Theorem C11_once_awaitable u e oid : Inv e ->
  (futs oid (snd (ep_step u e LClose)) + pend (fst (ep_step u e LClose)) oid <= pend e oid)%nat.
Proof. exact (step_futs u e LClose oid). Qed.
Print Assumptions C11_once_awaitable.
Theorem C11_once_subscriber u e oid : Inv e ->
  (length (dsigs oid (snd (ep_step u e LClose))) <= opn e oid)%nat /\
  (tcount oid (snd (ep_step u e LClose)) + opn (fst (ep_step u e LClose)) oid <= opn e oid)%nat.
Proof. exact (step_sigs u e LClose oid). Qed.
Print Assumptions C11_once_subscriber.

(* a link cut at ANY byte offset has delivered a prefix of the frames (nothing reordered, nothing invented) *)
Theorem C11_cut_delivers_prefix : forall decode a b, exists o2,
  fst (drain_all decode (a ++ b)) = fst (drain_all decode a) ++ o2.
Proof. exact prefix_outputs. Qed.
Print Assumptions C11_cut_delivers_prefix.
