(* C12 — Hostile input and failing application code are contained.
   Statements only.  Byte level: proofs/ParserProofs.v (model/Parser.v = frame_parser.py + frame.py parse_or_ignore).
   Frame level: proofs/EndpointProofs.v (model/Endpoint.v = rsocket_base.py _handle_next_frame, handlers/*.py). *)
From Coq Require Import NArith List Bool Init.Byte.
From RSV Require Import gen.GenConst lib.Bytes model.Frame model.Parser model.Fragmenter model.StreamIds model.Endpoint
     proofs.ParserProofs proofs.EndpointProofs.
Import ListNotations.
Open Scope N_scope.

(* ---- bytes ---- *)
(* for ARBITRARY bytes in the buffer (any decoder verdicts: ok, ignored, invalid), the byte-stream loop terminates within
   as many iterations as there are bytes and leaves no complete frame behind; a body that does not decode yields one
   invalid marker and does not disturb the frames after it (C04_exact); chunking is irrelevant (C04_chunking) *)
Theorem C12_bytes_terminate : forall decode fuel buf, (length buf <= fuel)%nat ->
  drain decode fuel buf = drain_all decode buf /\ split_frame (snd (drain_all decode buf)) = None.
Proof. exact drain_terminates. Qed.
Print Assumptions C12_bytes_terminate.

Theorem C12_bad_body_skipped : forall decode bodies tail, Forall (fun b => lenN b < 2 ^ 24) bodies ->
  drain_all decode (concat (map delimit bodies) ++ tail) =
    let (o, r) := drain_all decode tail in (concat (map (fun b => items_of (decode b)) bodies) ++ o, r).
Proof. exact drain_delimited. Qed.
Print Assumptions C12_bad_body_skipped.

(* the empty message on a message transport (the hang repaired by fix 2733ad1) is consumed and yields nothing *)
Theorem C12_empty_message : forall decode fuel, (1 <= fuel)%nat -> msg_feed decode true fuel [] [] = Some ([], []).
Proof. exact msg_empty_guarded. Qed.
Print Assumptions C12_empty_message.

(* ---- frames: whatever a frame does, it does to its own stream ---- *)
(* ANY frame (valid, protocol-violating, for unknown or finished streams), ANY behaviour of the application
   handler (returns, raises), ANY state: the table entry and the reassembly entry of every OTHER stream are
   untouched, and everything queued for sending in reaction is on the offending frame's own stream. *)
Theorem C12_contained e f o u k : Inv e -> k <> fsid f ->
  let '(e', effs) := recv_frame e f o u in
  tget (table e') k = tget (table e) k /\ cache_get (cachek e') k = cache_get (cachek e) k /\ enq_on (fsid f) effs.
Proof. intros I Hk. apply recv_frame_local; [apply inv_WF; exact I|apply I|exact Hk]. Qed.
Print Assumptions C12_contained.

(* the structural invariant the above relies on holds after EVERY history of atomic sections (received frames of
   any kind, application calls in any order, raising handlers, close) *)
Theorem C12_invariant first ls : Inv (reach first ls).
Proof. exact (reach_inv first ls). Qed.
Print Assumptions C12_invariant.

(* ... so a request arriving afterwards on a free stream id is served exactly as on a fresh connection *)
Theorem C12_still_served e sid ign md d :
  tget (table e) sid = None -> cache_get (cachek e) sid = None -> sid <> 0 ->
  recv_frame e (FRequestResponse sid ign false md d) OFuture true =
    (register_obj e sid (mk_obj KRRResp sid), [XHandler HResponse md d]).
Proof. exact (fresh_request_served e sid ign md d). Qed.
Print Assumptions C12_still_served.

(* a handler that raises, for any request type on any stream: the answer is one ERROR frame on that stream and the
   state is unchanged *)
Theorem C12_raising_handler e sid ign md d :
  tget (table e) sid = None -> cache_get (cachek e) sid = None ->
  recv_frame e (FRequestResponse sid ign false md d) ORaise true =
    (e, [XHandler HResponse md d; XEnq (f_error sid EC_APPLICATION_ERROR [])]).
Proof. exact (raising_handler_contained e sid ign md d). Qed.
Print Assumptions C12_raising_handler.

(* CANCEL / REQUEST_N / ERROR / KEEPALIVE-like frames for a stream that is unknown or already finished are dropped:
   no state change, nothing sent *)
Theorem C12_unknown_stream_dropped e f o u : is_fragmentable f = false -> is_request_type f = false ->
  fsid f <> CONNECTION_STREAM_ID -> tget (table e) (fsid f) = None -> recv_frame e f o u = (e, []).
Proof. exact (unknown_stream_dropped e f o u). Qed.
Print Assumptions C12_unknown_stream_dropped.
