(* C01 — End-to-end payload delivery and request/response correlation.  (statements; see proofs/PipelineProofs.v) *)
From Coq Require Import NArith List Bool Init.Byte.
From RSV Require Import gen.GenConst lib.Bytes model.Frame model.Parser model.Fragmenter model.SendQueue model.Pipeline
     proofs.SendQueueProofs.
Import ListNotations.
Open Scope N_scope.

(* placeholder until the composition theorem is in: the per-stream wire order theorem it starts from *)
Theorem C01_per_stream_wire : forall size lenreq, size_ok size -> forall ls k, no_prio ls ->
  let s := qrun size lenreq ls in
  on k (wire s) ++ pending (q s) k = concat (map (emissions size lenreq) (on k (enqueued ls))).
Proof. exact per_stream. Qed.
Print Assumptions C01_per_stream_wire.
