(* C01 — End-to-end payload delivery and request/response correlation.
   Statements only; proofs in proofs/PipelineProofs.v, composing the layer theorems: send queue (C05: per-stream wire
   order), fragmenter and reassembly (C03), codec (C02: decode (encode f) = norm f), byte-stream parser (C04: chunking
   independence, exactness).  Model: model/Pipeline.v over model/SendQueue.v, Fragmenter.v, Frame.v, Parser.v.
   Above the pipeline: model/Network.v joins two endpoints (model/Endpoint.v, the model the C07..C12 trace
   correspondences tie to the code) by links with exactly the guarantee C01_end_to_end gives — per stream first in first
   out, streams may overtake each other — and the C01_network_* theorems (proofs/NetworkProofs.v) follow every payload
   from the application's call on one side to the handler / subscriber / awaitable on the other. *)
From Coq Require Import NArith List Bool Init.Byte.
From RSV Require Import gen.GenConst lib.Bytes model.Frame model.Parser model.Fragmenter model.SendQueue model.Pipeline
     model.Endpoint model.Network proofs.FragmenterProofs proofs.SendQueueProofs proofs.PipelineProofs proofs.PipelinePrio proofs.NetworkProofs proofs.NetworkRequests proofs.NetworkExact.
Import ListNotations.
Open Scope N_scope.

(* what "delivered intact" means for one frame: same type, stream, flags, request-n, metadata and data (a fragmentable
   frame's FOLLOWS bit is reassembly residue nothing reads); any other frame arrives as it is *)
Theorem C01_delivered_as_def : forall f R, delivered_as f R <->
  if is_fragmentable f then
    ftype R = ftype f /\ fsid R = fsid f /\ fign R = fign f /\ freqn R = freqn f /\
    fmd R = fmd f /\ fdata R = fdata f /\ fcomplete R = fcomplete f
  else R = f.
Proof. intros f R. unfold delivered_as. reflexivity. Qed.
Print Assumptions C01_delivered_as_def.

(* END TO END, byte-stream framing.  For EVERY history ls of send_frame calls and sender steps (any frames on any
   streams, queued at any moment relative to the sender's progress) after which the sender has written what it was given,
   EVERY fragment size >= 64 or none, EVERY chunking of the resulting byte stream (single bytes, cuts inside a length
   prefix, many frames per read), both codec back ends, and EVERY stream k: the complete frames the receiving pipeline
   (FrameParser, FrameFragmentCache) hands to dispatch on stream k are exactly the frames queued on k — one for one, in
   order, each delivered intact.  Nothing lost, duplicated, reordered within the stream, merged with or moved to
   another stream. *)
Theorem C01_end_to_end : forall bk size lenreq ls chunks k,
  size_ok size -> no_prio ls ->
  let s := qrun size lenreq ls in
  (forall j, pending (q s) j = []) ->
  Forall (fun f => wf f = true /\ lenN (encode f) < 2 ^ 24) (wire s) ->
  concat chunks = wire_bytes (wire s) ->
  Forall2 delivered_as (on k (enqueued ls)) (on k (receive bk chunks)).
Proof. exact end_to_end. Qed.
Print Assumptions C01_end_to_end.

(* The same for histories WITH send_priority_frame calls (SETUP is queued that way, on stream 0, possibly while requests are
   already waiting — connect and every reconnect): for every stream k no priority frame is queued on, and asking only that
   what was queued for stream k itself has been written. *)
Theorem C01_end_to_end_with_priority : forall bk size lenreq ls chunks k,
  size_ok size -> Forall (fun l => match l with QPrio f => fsid f <> k | _ => True end) ls ->
  let s := qrun size lenreq ls in
  pending (q s) k = [] ->
  Forall (fun f => wf f = true /\ lenN (encode f) < 2 ^ 24) (wire s) ->
  concat chunks = wire_bytes (wire s) ->
  Forall2 delivered_as (on k (enqueued ls)) (on k (receive bk chunks)).
Proof. exact end_to_end_prio. Qed.
Print Assumptions C01_end_to_end_with_priority.

Theorem C01_end_to_end_messages_with_priority : forall size lenreq ls k,
  size_ok size -> Forall (fun l => match l with QPrio f => fsid f <> k | _ => True end) ls ->
  let s := qrun size lenreq ls in
  pending (q s) k = [] ->
  Forall2 delivered_as (on k (enqueued ls)) (on k (snd (rx [] (map norm (wire s))))).
Proof. exact end_to_end_messages_prio. Qed.
Print Assumptions C01_end_to_end_messages_with_priority.

(* non-vacuity: a fragmented request partly written, then a priority frame, then the rest: stream 1 is written out *)
Theorem C01_priority_example :
  let s := qrun (Some 64) true ex_prio in
  prio_off 1 ex_prio /\ ~ no_prio ex_prio /\ pending (q s) 1 = [] /\
  map ftype (wire s) = [FT_REQUEST_RESPONSE; FT_KEEPALIVE; FT_PAYLOAD; FT_PAYLOAD].
Proof. exact end_to_end_prio_example. Qed.
Print Assumptions C01_priority_example.

(* message framing (one frame per message) *)
Theorem C01_end_to_end_messages : forall size lenreq ls k,
  size_ok size -> no_prio ls ->
  let s := qrun size lenreq ls in
  (forall j, pending (q s) j = []) ->
  Forall2 delivered_as (on k (enqueued ls)) (on k (snd (rx [] (map norm (wire s))))).
Proof. exact end_to_end_messages. Qed.
Print Assumptions C01_end_to_end_messages.

(* the receiver's answers on a stream depend only on that stream's frames, whatever is interleaved with them *)
Theorem C01_streams_independent : forall k fs c1 c2, EndpointProofs.CWF c1 -> EndpointProofs.CWF c2 ->
  cache_get c1 k = cache_get c2 k ->
  on k (snd (rx c1 fs)) = snd (rx c2 (on k fs)) /\ cache_get (fst (rx c1 fs)) k = cache_get (fst (rx c2 (on k fs))) k.
Proof. exact rx_stream. Qed.
Print Assumptions C01_streams_independent.

(* non-vacuity: a 150-byte payload fragmented at 64, interleaved with a request on another stream, read in three
   odd chunks: the premises hold and the payload arrives whole *)
Theorem C01_example :
  let s := qrun (Some 64) true ex_ls in
  (forall j, pending (q s) j = []) /\ length (wire s) = 4%nat /\
  map (fun f => (ftype f, lenN (fdata f))) (on 1 (receive Cbit [takeN (wire_bytes (wire s)) 5; takeN (dropN (wire_bytes (wire s)) 5) 100;
                                     dropN (wire_bytes (wire s)) 105])) = [(FT_PAYLOAD, 150)].
Proof. exact end_to_end_example. Qed.
Print Assumptions C01_example.

(* ------------------------------------------------------------------------------------------------------------------ *)
(* APPLICATION TO APPLICATION.  For EVERY history of two connected endpoints — application calls, future callbacks,
   publisher signals and close sweeps on either side, frames delivered at any later moment, frames of different streams
   overtaking each other — each side s and each stream k: the payloads the application at s is given from stream k
   (request handler arguments, subscriber elements, awaitable results) are, in order and without repetition, payloads of
   frames its peer queued on stream k.  Nothing fabricated, duplicated, reordered within the stream, altered, or taken
   from another stream; sections that are not deliveries hand the application no payload at all. *)
Theorem C01_network_delivery : forall ls s k,
  let tr := snd (net_run net_init ls) in
  subseq (got tr s k) (pmap carried (on_stream k (nwire tr (other s)))).
Proof. exact network_delivery. Qed.
Print Assumptions C01_network_delivery.

(* ... and what the peer queued on stream k is what was dispatched here followed by what is still under way: a frame
   leaves the link only by being dispatched *)
Theorem C01_network_in_flight : forall ls s k,
  let r := net_run net_init ls in
  on_stream k (nwire (snd r) (other s)) = on_stream k (delivered (snd r) s) ++ on_stream k (inbox (fst r) s).
Proof. exact network_in_flight. Qed.
Print Assumptions C01_network_in_flight.

(* emission: the payload-carrying frames one application call / callback / publisher signal queues carry exactly the
   payload handed over in that section (at most one frame); reactions to received frames carry none *)
Theorem C01_network_emission : forall u e l, is_recv l = false ->
  pmap pcarried (sent_frames (snd (ep_step u e l))) = [] \/
  exists p, label_payload l = Some p /\ pmap pcarried (sent_frames (snd (ep_step u e l))) = [p].
Proof. exact local_emission. Qed.
Print Assumptions C01_network_emission.

Theorem C01_network_reactions_carry_nothing : forall e f o u,
  pmap pcarried (sent_frames (snd (recv_dispatch e f o u))) = [].
Proof. exact delivery_emits_no_payload. Qed.
Print Assumptions C01_network_reactions_carry_nothing.

(* one dispatched frame hands the application nothing or exactly the payload it carries ... *)
Theorem C01_dispatch_intact : forall e f o u,
  app_payloads (snd (recv_dispatch e f o u)) = [] \/
  exists p, carried f = Some p /\ app_payloads (snd (recv_dispatch e f o u)) = [p].
Proof. exact dispatch_intact. Qed.
Print Assumptions C01_dispatch_intact.

(* ... every signal it causes goes to the object registered for that frame's stream (or the responder it creates) ... *)
Theorem C01_dispatch_right_object : forall e f o u, EndpointProofs.Inv e ->
  Forall (fun x => match x with
                   | XFut i _ _ _ | XCb i _ | XPub i _ | XAppFutCancel i =>
                       tget (table e) (fsid f) = Some i \/ (tget (table e) (fsid f) = None /\ i = length (objs e))
                   | _ => True end) (snd (recv_dispatch e f o u)).
Proof. exact delivery_reaches_own_object. Qed.
Print Assumptions C01_dispatch_right_object.

(* ... and nothing is lost at dispatch: an element or response for a stream whose local party is still listening (pending
   awaitable; subscriber set and, for a channel, receive direction open) is handed to exactly that object, and a request
   on a free id reaches the handler with its payload whether the handler then raises or not *)
Theorem C01_element_delivered : forall e sid oid ob ign fo co md d oc u,
  sid <> 0 -> tget (table e) sid = Some oid -> nth_error (objs e) oid = Some ob -> receptive ob = true ->
  let effs := snd (recv_dispatch e (FPayload sid ign fo co true md d) oc u) in
  app_payloads effs = [(md, d)] /\ Forall (for_object oid) effs.
Proof. exact element_delivered. Qed.
Print Assumptions C01_element_delivered.

Theorem C01_request_delivered : forall e f o u,
  is_request_type f = true -> fsid f <> 0 -> tget (table e) (fsid f) = None ->
  exists p, carried f = Some p /\ app_payloads (snd (recv_dispatch e f o u)) = [p].
Proof. exact request_delivered. Qed.
Print Assumptions C01_request_delivered.

(* EXACTLY ONCE over whole histories.  For every history of the two endpoints, side s and stream k of the peer's parity:
   if the peer queued exactly one request frame f on stream k (ids are not reused: C13) and it has been dispatched, then
   from the request frames of stream k the application's handler at s was handed the request's payload exactly once and
   nothing else — whatever else happened on this or any other stream (cancels, errors, close sweeps on the other side,
   other requests in flight), and whether or not the handler raised.  par SA = 1 (client, odd ids), par SB = 2. *)
Theorem C01_network_request_exactly_once : forall ls s k f,
  let tr := snd (net_run net_init ls) in
  k <> 0 -> k mod 2 <> par s mod 2 ->
  reqk k (nwire tr (other s)) = [f] -> In f (delivered tr s) ->
  exists p, carried f = Some p /\ got_req tr s k = [p].
Proof. exact network_request_exactly_once. Qed.
Print Assumptions C01_network_request_exactly_once.

Theorem C01_network_request_example :
  let ls := [NLocal SA (LReqResponse [x01] [x02]); NLocal SB (LReqStream [x03] [x04]);
             NLocal SB (LSubscribe 0%nat true [x03] [x04]);
             NDeliver SB 1 OFuture true; NDeliver SA 2 OPublisher true;
             NLocal SA (LPubNext 1%nat [x05] [x06] false); NLocal SB (LAppResolve 1%nat (ARResult [x07] [x08]));
             NLocal SB (LFutCb 1%nat (ARResult [x07] [x08])); NLocal SA (LPubNext 1%nat [] [x09] true);
             NDeliver SB 2 ONone true; NDeliver SA 1 ONone true; NDeliver SB 2 ONone true] in
  let tr := snd (net_run net_init ls) in
  let f := FRequestResponse 1 false false [x01] [x02] in
  1 <> 0 /\ 1 mod 2 <> par SB mod 2 /\ reqk 1 (nwire tr (other SB)) = [f] /\ In f (delivered tr SB) /\
  got_req tr SB 1 = [([x01], [x02])].
Proof. exact request_example. Qed.
Print Assumptions C01_network_request_example.

(* EXACTLY ONCE for every payload of a stream, over whole histories.  The vocabulary first (definitions in
   proofs/NetworkExact.v, restated here so that the theorem can be read on its own):
   - s "hears" a frame: a request finds its id free at s; an element / response finds the object registered for its
     stream still expecting one (a pending awaitable, a subscribed stream requester, a channel side whose receive
     direction is open);
   - s is "listening" on stream k over a history: each time a frame of k carrying a payload with content is dispatched
     at s, s hears it;
   - "wanted" keeps the payloads with content (an empty payload is no element on the wire: model/Network.v on_wire). *)
Theorem C01_hears_def : forall e f, hears e f <->
  match f with
  | FRequestResponse _ _ _ _ _ | FRequestFnf _ _ _ _ _ | FRequestStream _ _ _ _ _ _ | FRequestChannel _ _ _ _ _ _ _ =>
      tget (table e) (fsid f) = None
  | FPayload _ _ _ _ _ _ _ =>
      exists oid ob, tget (table e) (fsid f) = Some oid /\ nth_error (objs e) oid = Some ob /\ receptive ob = true
  | _ => False
  end.
Proof. intros e f. unfold hears. reflexivity. Qed.
Print Assumptions C01_hears_def.

Theorem C01_listening_def : forall n l r s k, listening n (l :: r) s k <->
  match l with
  | NDeliver s' k' _ _ =>
      if side_eqb s' s && (k' =? k) then
        match pop (inbox n s) k with
        | Some (f, _) => match carried f with
                         | Some p => nonempty p = true -> hears (ep_of n s) f
                         | None => True
                         end
        | None => True
        end
      else True
  | NLocal _ _ => True
  end /\ listening (fst (net_step n l)) r s k.
Proof. intros n l r s k. cbn [listening]. unfold listens_at. reflexivity. Qed.
Print Assumptions C01_listening_def.

(* For EVERY history of the two endpoints from connection start, each side s and each stream k other than 0: if s was
   listening on k throughout and nothing of stream k is still under way to s, the payloads with content the application
   at s was given from k — handler arguments, subscriber elements, awaitable results — are exactly the payloads with
   content its peer queued on k: none lost, none twice, none altered, in the order queued.  Streams may overtake each
   other, the other side may cancel, fail, close or open further streams at any moment. *)
Theorem C01_network_exactly_once : forall ls s k, k <> 0 -> listening net_init ls s k ->
  let r := net_run net_init ls in
  on_stream k (inbox (fst r) s) = [] ->
  filter nonempty (got (snd r) s k) = filter nonempty (pmap carried (on_stream k (nwire (snd r) (other s)))).
Proof. exact network_exactly_once. Qed.
Print Assumptions C01_network_exactly_once.

(* non-vacuity: the history below (a request-response one way, a request-stream with two elements the other way,
   deliveries interleaved) is listening on every stream it uses and drains both links *)
Theorem C01_network_exactly_once_example :
  let ls := [NLocal SA (LReqResponse [x01] [x02]); NLocal SB (LReqStream [x03] [x04]);
             NLocal SB (LSubscribe 0%nat true [x03] [x04]);
             NDeliver SB 1 OFuture true; NDeliver SA 2 OPublisher true;
             NLocal SA (LPubNext 1%nat [x05] [x06] false); NLocal SB (LAppResolve 1%nat (ARResult [x07] [x08]));
             NLocal SB (LFutCb 1%nat (ARResult [x07] [x08])); NLocal SA (LPubNext 1%nat [] [x09] true);
             NDeliver SB 2 ONone true; NDeliver SA 1 ONone true; NDeliver SB 2 ONone true] in
  (listening net_init ls SB 1 /\ listening net_init ls SA 1 /\ listening net_init ls SB 2 /\ listening net_init ls SA 2) /\
  inbox (fst (net_run net_init ls)) SA = [] /\ inbox (fst (net_run net_init ls)) SB = [] /\
  filter nonempty (got (snd (net_run net_init ls)) SB 2) = [([x05], [x06]); ([], [x09])].
Proof. exact exactly_once_example. Qed.
Print Assumptions C01_network_exactly_once_example.

(* non-vacuity: request-response from A, a stream from B with two elements overtaking the response on the link *)
Theorem C01_network_example :
  let ls := [NLocal SA (LReqResponse [x01] [x02]); NLocal SB (LReqStream [x03] [x04]);
             NLocal SB (LSubscribe 0%nat true [x03] [x04]);
             NDeliver SB 1 OFuture true; NDeliver SA 2 OPublisher true;
             NLocal SA (LPubNext 1%nat [x05] [x06] false); NLocal SB (LAppResolve 1%nat (ARResult [x07] [x08]));
             NLocal SB (LFutCb 1%nat (ARResult [x07] [x08])); NLocal SA (LPubNext 1%nat [] [x09] true);
             NDeliver SB 2 ONone true; NDeliver SA 1 ONone true; NDeliver SB 2 ONone true] in
  let tr := snd (net_run net_init ls) in
  got tr SB 1 = [([x01], [x02])] /\ got tr SA 2 = [([x03], [x04])] /\
  got tr SB 2 = [([x05], [x06]); ([], [x09])] /\ got tr SA 1 = [([x07], [x08])] /\
  inbox (fst (net_run net_init ls)) SA = [] /\ inbox (fst (net_run net_init ls)) SB = [].
Proof. exact network_example. Qed.
Print Assumptions C01_network_example.
