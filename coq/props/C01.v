(* C01 — End-to-end payload delivery and request/response correlation.
   Statements only; proofs in proofs/PipelineProofs.v, composing the layer theorems: send queue (C05: per-stream wire
   order), fragmenter and reassembly (C03), codec (C02: decode (encode f) = norm f), byte-stream parser (C04: chunking
   independence, exactness).  Model: model/Pipeline.v over model/SendQueue.v, Fragmenter.v, Frame.v, Parser.v.
   Dispatch of complete frames to handlers / subscribers / awaitables is the Endpoint model (C07..C12 theorems:
   one frame, one stream, one object). *)
From Coq Require Import NArith List Bool Init.Byte.
From RSV Require Import gen.GenConst lib.Bytes model.Frame model.Parser model.Fragmenter model.SendQueue model.Pipeline
     proofs.FragmenterProofs proofs.SendQueueProofs proofs.PipelineProofs.
Import ListNotations.
Open Scope N_scope.

(* what "delivered intact" means for one frame: same type, stream, flags, request-n, metadata and data (a fragmentable
   frame's FOLLOWS bit is reassembly residue nothing reads); any other frame arrives as it is *)
Theorem C01_delivered_as_def : forall f R, delivered_as f R <->
  if is_fragmentable f then
    ftype R = ftype f /\ fsid R = fsid f /\ fign R = fign f /\ freqn R = freqn f /\
    fmd R = fmd f /\ fdata R = fdata f /\ fcomplete R = fcomplete f
  else R = f.
Proof. intros f R. unfold delivered_as. reflexivity. Qed.
Print Assumptions C01_delivered_as_def.

(* END TO END, byte-stream framing.  For EVERY history ls of send_frame calls and sender steps (any frames on any
   streams, queued at any moment relative to the sender's progress) after which the sender has written what it was given,
   EVERY fragment size >= 64 or none, EVERY chunking of the resulting byte stream (single bytes, cuts inside a length
   prefix, many frames per read), both codec back ends, and EVERY stream k: the complete frames the receiving pipeline
   (FrameParser, FrameFragmentCache) hands to dispatch on stream k are exactly the frames queued on k — one for one, in
   order, each delivered intact.  Nothing lost, duplicated, reordered within the stream, merged with or moved to
   another stream. *)
Theorem C01_end_to_end : forall bk size lenreq ls chunks k,
  size_ok size -> no_prio ls ->
  let s := qrun size lenreq ls in
  (forall j, pending (q s) j = []) ->
  Forall (fun f => wf f = true /\ lenN (encode f) < 2 ^ 24) (wire s) ->
  concat chunks = wire_bytes (wire s) ->
  Forall2 delivered_as (on k (enqueued ls)) (on k (receive bk chunks)).
Proof. exact end_to_end. Qed.
Print Assumptions C01_end_to_end.

(* message framing (one frame per message) *)
Theorem C01_end_to_end_messages : forall size lenreq ls k,
  size_ok size -> no_prio ls ->
  let s := qrun size lenreq ls in
  (forall j, pending (q s) j = []) ->
  Forall2 delivered_as (on k (enqueued ls)) (on k (snd (rx [] (map norm (wire s))))).
Proof. exact end_to_end_messages. Qed.
Print Assumptions C01_end_to_end_messages.

(* the receiver's answers on a stream depend only on that stream's frames, whatever is interleaved with them *)
Theorem C01_streams_independent : forall k fs c1 c2, EndpointProofs.CWF c1 -> EndpointProofs.CWF c2 ->
  cache_get c1 k = cache_get c2 k ->
  on k (snd (rx c1 fs)) = snd (rx c2 (on k fs)) /\ cache_get (fst (rx c1 fs)) k = cache_get (fst (rx c2 (on k fs))) k.
Proof. exact rx_stream. Qed.
Print Assumptions C01_streams_independent.

(* non-vacuity: a 150-byte payload fragmented at 64, interleaved with a request on another stream, read in three
   odd chunks: the premises hold and the payload arrives whole *)
Theorem C01_example :
  let s := qrun (Some 64) true ex_ls in
  (forall j, pending (q s) j = []) /\ length (wire s) = 4%nat /\
  map (fun f => (ftype f, lenN (fdata f))) (on 1 (receive Cbit [takeN (wire_bytes (wire s)) 5; takeN (dropN (wire_bytes (wire s)) 5) 100;
                                     dropN (wire_bytes (wire s)) 105])) = [(FT_PAYLOAD, 150)].
Proof. exact end_to_end_example. Qed.
Print Assumptions C01_example.
