(* C14 — Lease: no request without a valid lease, never more than granted.
   Statements only; proofs in proofs/LeaseProofs.v; model in model/Lease.v (lease.py DefinedLease,
   RSocketBase.send_request / handle_lease / send_lease).  Virtual time in microseconds. *)
From Coq Require Import ZArith NArith List Init.Byte.
From RSV Require Import lib.Bytes model.Frame model.Setup model.Lease proofs.LeaseProofs.
Import ListNotations.
Open Scope Z_scope.

(* no request is sent before the first LEASE arrives *)
Theorem C14_none_before_first_lease : forall evs t0 qm, no_lease evs -> sent (lrun t0 qm evs) = [].
Proof.
  intros evs t0 qm H. unfold lrun. rewrite none_before_first_lease; [reflexivity|exact H|]. intro t. apply init_dead.
Qed.
Print Assumptions C14_none_before_first_lease.

(* under each lease (from one LEASE frame to the next) at most the granted number of requests is sent,
   those released from the queue by that LEASE included; a count of 0 or less grants none *)
Theorem C14_at_most_granted : forall post s n ttl now, no_lease post ->
  let s1 := fold_left lstep (ELease n ttl now :: post) s in
  Z.of_nat (length (sent s1)) - Z.of_nat (length (sent s)) <= Z.max 0 n.
Proof. exact at_most_granted. Qed.
Print Assumptions C14_at_most_granted.

(* a request is sent only while the lease's time-to-live has not elapsed *)
Theorem C14_within_ttl : forall s e,
  match e with
  | EReq _ now => (length (sent s) < length (sent (lstep s e)))%nat -> now < lcreated (cur s) + lttl (cur s)
  | ELease n ttl now => (length (sent s) < length (sent (lstep s e)))%nat -> 0 < ttl
  end.
Proof. intros s e. pose proof (lstep_count s e) as H. destruct e; destruct H as [_ H]; exact H. Qed.
Print Assumptions C14_within_ttl.

(* FIFO, at most once, none lost: for every history with non-decreasing times and an unbounded request
   queue, what has been sent followed by what is still queued is exactly the sequence of requests in the
   order they were made (so nothing overtakes, nothing is duplicated, nothing disappears) *)
Theorem C14_fifo : forall evs t0,
  sorted_from t0 evs ->
  let s := lrun t0 0 evs in sent s ++ queue s = req_ids evs /\ refused s = [].
Proof.
  intros evs t0 Hs. unfold lrun. 
  destruct (fifo_unbounded evs (rq_init t0 0) t0 eq_refl (fun H => match H eq_refl with end) Hs) as [H1 H2].
  split; [exact H1|exact H2].
Qed.
Print Assumptions C14_fifo.

(* with a bounded queue: still in order, never duplicated; only refused requests (QueueFull to the caller) are missing *)
Theorem C14_fifo_bounded : forall evs t0 qm, sorted_from t0 evs ->
  let s := lrun t0 qm evs in exists kept, sent s ++ queue s = kept /\ sublist kept (req_ids evs).
Proof.
  intros evs t0 qm Hs. unfold lrun.
  destruct (fifo_bounded evs (rq_init t0 qm) t0 (fun H => match H eq_refl with end) Hs) as (kept & H1 & H2).
  exists kept. split; [exact H1|exact H2].
Qed.
Print Assumptions C14_fifo_bounded.

(* responder: a published lease (n, ttl) is announced as LEASE(ttl in ms, n), as the peer decodes it *)
Theorem C14_announce : forall bk n ttl_us, (n < 2 ^ 31)%N -> 0 <= ttl_us < 2147483647000 ->
  decode bk (encode (announce n ttl_us)) = DOk (FLease 0 false (to_ms ttl_us) n []).
Proof. exact announce_on_wire. Qed.
Print Assumptions C14_announce.
