(* C06 — Request-n flow control: emission never exceeds granted credit.
   Statements only; proofs in proofs/PublisherProofs.v; model in model/Publisher.v (the credit-driven producer
   shared by StreamFromGenerator, StreamFromAsyncGenerator and the Rx/ReactiveX BackPressurePublisher). *)
From Coq Require Import NArith List.
From RSV Require Import model.Publisher proofs.PublisherProofs.
Import ListNotations.
Open Scope N_scope.

(* the event lists of the library's sources have exactly one terminal event, at the end *)
Theorem C06_sources_well_formed : forall src vs fails, wf_events (gen_events src) /\ wf_events (obs_events vs fails).
Proof. intros. split; [apply gen_events_wf|apply obs_events_wf]. Qed.
Print Assumptions C06_sources_well_formed.

(* SAFETY for every schedule of requests, producer steps, delivery steps and cancel: what has been handed to
   the subscriber plus what is queued for it never exceeds the total credit requested so far, and is a prefix
   of the source's events in order *)
Theorem C06_safety : forall evs, wf_events evs -> forall ls,
  let s := prun evs ls in
  lenE (delivered s) + lenE (outq s) <= requested ls /\ exists rest, evs = delivered s ++ rest.
Proof. exact credit_safety. Qed.
Print Assumptions C06_safety.

(* PROGRESS: when nothing more can happen without new credit, exactly the first (credit) events have been
   delivered — every element once enough credit was granted, nothing beyond *)
Theorem C06_progress : forall evs, wf_events evs -> forall ls,
  let s := prun evs ls in
  quiescent s = true -> cancelled s = false -> delivered s = settled evs (requested ls).
Proof. exact settled_delivery. Qed.
Print Assumptions C06_progress.

(* after cancel nothing further is delivered *)
Theorem C06_cancel_silences : forall ls s, cancelled s = true ->
  delivered (fold_left pstep ls s) = delivered s /\ cancelled (fold_left pstep ls s) = true.
Proof. exact cancel_silences. Qed.
Print Assumptions C06_cancel_silences.
