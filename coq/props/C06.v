(* C06 — Request-n flow control: emission never exceeds granted credit.
   Statements only; proofs in proofs/PublisherProofs.v; model in model/Publisher.v (the credit-driven producer
   shared by StreamFromGenerator, StreamFromAsyncGenerator and the Rx/ReactiveX BackPressurePublisher).  The last clause (credit
   granted by an application reaches the peer with exactly that value) is stated over model/Endpoint.v and
   model/Network.v (two endpoints joined by per-stream FIFO links), proofs in proofs/NetworkCredit.v. *)
From Coq Require Import NArith List Init.Byte.
From RSV Require Import lib.Bytes model.Frame model.Endpoint model.Network model.Publisher proofs.PublisherProofs
     proofs.NetworkProofs proofs.NetworkCredit.
Import ListNotations.
Open Scope N_scope.

(* the event lists of the library's sources have exactly one terminal event, at the end *)
Theorem C06_sources_well_formed : forall src vs fails, wf_events (gen_events src) /\ wf_events (obs_events vs fails).
Proof. intros. split; [apply gen_events_wf|apply obs_events_wf]. Qed.
Print Assumptions C06_sources_well_formed.

(* SAFETY for every schedule of requests, producer steps, delivery steps and cancel: what has been handed to
   the subscriber plus what is queued for it never exceeds the total credit requested so far, and is a prefix
   of the source's events in order *)
Theorem C06_safety : forall evs, wf_events evs -> forall ls,
  let s := prun evs ls in
  lenE (delivered s) + lenE (outq s) <= requested ls /\ exists rest, evs = delivered s ++ rest.
Proof. exact credit_safety. Qed.
Print Assumptions C06_safety.

(* PROGRESS: when nothing more can happen without new credit, exactly the first (credit) events have been
   delivered — every element once enough credit was granted, nothing beyond *)
Theorem C06_progress : forall evs, wf_events evs -> forall ls,
  let s := prun evs ls in
  quiescent s = true -> cancelled s = false -> delivered s = settled evs (requested ls).
Proof. exact settled_delivery. Qed.
Print Assumptions C06_progress.

(* after cancel nothing further is delivered *)
Theorem C06_cancel_silences : forall ls s, cancelled s = true ->
  delivered (fold_left pstep ls s) = delivered s /\ cancelled (fold_left pstep ls s) = true.
Proof. exact cancel_silences. Qed.
Print Assumptions C06_cancel_silences.

(* ---------- credit granted by an application is transmitted to the peer with exactly that value ---------- *)
(* Subscription.request(n) on an object the endpoint holds: exactly one REQUEST_N frame, on the object's stream, value n *)
Theorem C06_request_n_emitted : forall u e oid o n, nth_error (objs e) oid = Some o ->
  snd (ep_step u e (LRequestN oid n)) = [XEnq (FRequestN (o_sid o) false n)].
Proof. exact request_n_emitted. Qed.
Print Assumptions C06_request_n_emitted.

(* initial_request_n(n), n > 0: recorded in the object, nothing sent, the stream table untouched *)
Theorem C06_initial_n_recorded : forall u e oid o n, nth_error (objs e) oid = Some o ->
  let r := ep_step u e (LInitialN oid n true) in
  snd r = [] /\ nth_error (objs (fst r)) oid = Some (upd_n o n) /\ table (fst r) = table e.
Proof. exact initial_n_recorded. Qed.
Print Assumptions C06_initial_n_recorded.

(* subscribe on a stream / channel requester: the request frame carries the recorded initial request-n *)
Theorem C06_subscribe_carries_initial_n : forall u e oid o hs md d, nth_error (objs e) oid = Some o ->
  (o_kind o = KRSReq \/ o_kind o = KChanReq) ->
  pmap credit_of (sent_frames (snd (ep_step u e (LSubscribe oid hs md d)))) = [o_n o].
Proof. exact subscribe_carries_initial_n. Qed.
Print Assumptions C06_subscribe_carries_initial_n.

(* and no other section of an endpoint queues a frame that carries credit (credit_of: the request-n field of
   REQUEST_STREAM, REQUEST_CHANNEL and REQUEST_N frames) *)
Theorem C06_local_credit : forall u e l, is_recv l = false ->
  pmap credit_of (sent_frames (snd (ep_step u e l))) = [] \/
  (exists oid n, l = LRequestN oid n /\ pmap credit_of (sent_frames (snd (ep_step u e l))) = [n]) \/
  (exists oid hs md d o, l = LSubscribe oid hs md d /\ nth_error (objs e) oid = Some o /\
                         pmap credit_of (sent_frames (snd (ep_step u e l))) = [o_n o]).
Proof. exact local_credit. Qed.
Print Assumptions C06_local_credit.

(* receiving side: a REQUEST_N for a stream whose object has a producer calls request(n) on it with the frame's value,
   and does nothing else *)
Theorem C06_request_n_delivered : forall e sid oid ob ign n o u,
  sid <> 0 -> tget (table e) sid = Some oid -> nth_error (objs e) oid = Some ob ->
  (o_kind ob = KRSResp \/ ((o_kind ob = KChanReq \/ o_kind ob = KChanResp) /\ o_has_pub ob = true)) ->
  snd (recv_dispatch e (FRequestN sid ign n) o u) = [XPub oid (PRequestN n)].
Proof. exact request_n_delivered. Qed.
Print Assumptions C06_request_n_delivered.

(* a REQUEST_STREAM on a free id whose handler returns a publisher: it is given the frame's initial request-n *)
Theorem C06_initial_n_delivered : forall e sid ign fo n md d o u,
  sid <> 0 -> tget (table e) sid = None -> o <> ORaise ->
  pub_credits (snd (recv_dispatch e (FRequestStream sid ign fo n md d) o u)) = [n].
Proof. exact initial_n_delivered. Qed.
Print Assumptions C06_initial_n_delivered.

(* any dispatch: the producers are given no credit, or exactly the value the dispatched frame carries, once *)
Theorem C06_dispatch_credit : forall e f o u,
  pub_credits (snd (recv_dispatch e f o u)) = [] \/
  exists n, credit_of f = Some n /\ pub_credits (snd (recv_dispatch e f o u)) = [n].
Proof. exact dispatch_credit. Qed.
Print Assumptions C06_dispatch_credit.

(* OVER WHOLE HISTORIES of two connected endpoints (application calls, deliveries at any later moment, streams
   overtaking each other, cancels, failures, close sweeps), each side s and stream k: the request(n) calls the producers
   at s are given for stream k are, in order and without repetition, credit values of the frames the peer queued on k —
   no value altered, merged, split, invented, repeated or taken from another stream *)
Theorem C06_network_credit : forall ls s k,
  let tr := snd (net_run net_init ls) in
  subseq (credits_got tr s k) (pmap credit_of (on_stream k (nwire tr (other s)))).
Proof. exact network_credit. Qed.
Print Assumptions C06_network_credit.

(* non-vacuity: B requests a stream with initial_request_n(2), later request(3); A's publisher is given 2, then 3 *)
Theorem C06_credit_example :
  let ls := [NLocal SB (LReqStream [x03] [x04]); NLocal SB (LInitialN 0%nat 2 true);
             NLocal SB (LSubscribe 0%nat true [x03] [x04]);
             NDeliver SA 2 OPublisher true;
             NLocal SB (LRequestN 0%nat 3);
             NDeliver SA 2 ONone true] in
  let tr := snd (net_run net_init ls) in
  credits_got tr SA 2 = [2; 3] /\ pmap credit_of (on_stream 2 (nwire tr SB)) = [2; 3].
Proof. exact credit_example. Qed.
Print Assumptions C06_credit_example.
