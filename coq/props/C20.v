(* C20 — Rx/ReactiveX adapters are transparent.
   Statements only; proofs in proofs/RxAdapterProofs.v (requester side, handler side, delegation) and
   proofs/PublisherProofs.v (Observable -> Publisher: the C06 theorems restated for the adapters' publisher).
   Model: model/RxAdapter.v, model/Publisher.v; delegation tables regenerated from both adapter sources on every run
   (gen/GenAdapters.v).  The two packages (rx_support = Rx 3, reactivex = ReactiveX 4) are the same code up to imports;
   the correspondence runs both. *)
From Coq Require Import NArith List Bool String.
From RSV Require Import gen.GenAdapters model.RxAdapter model.Publisher proofs.RxAdapterProofs proofs.PublisherProofs.
Import ListNotations.
Open Scope N_scope.

(* Publisher -> Observable (client results, both directions of a channel): for EVERY history of subscriber signals and
   turns of the request task, the observer sees exactly the elements, completion and error the stream delivered, in order
   (an element flagged complete = element then completion) *)
Theorem C20_requester_transparent : forall limit is s, snd (fst (rx_run limit s is)) = events_of is.
Proof. exact rx_transparent. Qed.
Print Assumptions C20_requester_transparent.
Theorem C20_handler_side_transparent : forall limit is g, snd (fst (hs_run limit g is)) = events_of is.
Proof. exact hs_transparent. Qed.
Print Assumptions C20_handler_side_transparent.

(* the request limit: whatever is requested after the stream request is requested in amounts of exactly the limit ... *)
Theorem C20_requests_are_limit : forall limit is s, Forall (fun n => n = limit) (snd (rx_run limit s is)).
Proof. exact rx_requests_are_limit. Qed.
Print Assumptions C20_requests_are_limit.

(* ... and only for elements received: with the initial [limit] of the request frame, never more than [limit] elements
   are outstanding, over every history *)
Theorem C20_outstanding_at_most_limit : forall limit is, 0 < limit ->
  finished (fst (fst (rx_run limit rxs_init is))) = true \/ sumN (snd (rx_run limit rxs_init is)) <= elements is.
Proof. exact rx_outstanding_at_most_limit. Qed.
Print Assumptions C20_outstanding_at_most_limit.

(* Observable -> Publisher (handler results, the requester's side of a channel): one notification per credit; for every
   schedule what reaches the subscriber (hence the wire) never exceeds the credit and is a prefix of the observable's
   notifications in order; at quiescence exactly the credited prefix; nothing after cancel (dispose) *)
Theorem C20_handler_observable_respects_credit : forall vs fails ls,
  let evs := obs_events vs fails in let s := prun evs ls in
  lenE (Publisher.delivered s) + lenE (outq s) <= requested ls /\ exists rest, evs = Publisher.delivered s ++ rest.
Proof. intros vs fails ls. apply credit_safety. apply obs_events_wf. Qed.
Print Assumptions C20_handler_observable_respects_credit.
Theorem C20_handler_observable_delivers : forall vs fails ls,
  let evs := obs_events vs fails in let s := prun evs ls in
  quiescent s = true -> cancelled s = false -> Publisher.delivered s = settled evs (requested ls).
Proof. intros vs fails ls. apply settled_delivery. apply obs_events_wf. Qed.
Print Assumptions C20_handler_observable_delivers.
Theorem C20_dispose_silences : forall ls s, cancelled s = true ->
  Publisher.delivered (fold_left pstep ls s) = Publisher.delivered s /\ cancelled (fold_left pstep ls s) = true.
Proof. exact cancel_silences. Qed.
Print Assumptions C20_dispose_silences.

(* every RequestHandler method of both handler adapters is handed to the delegate's method of the same name (the
   tables are regenerated from reactivex_handler_adapter.py and rx_handler_adapter.py: on_metadata_push used to call
   itself — fix 2906951) *)
Theorem C20_adapters_delegate_everything : delegates_all reactivex_adapter = true /\ delegates_all rx_adapter = true.
Proof. exact adapters_delegate_everything. Qed.
Print Assumptions C20_adapters_delegate_everything.

Theorem C20_example :
  rx_run 2 rxs_init [SNext 1 false; SNext 2 false; STask; SNext 3 false; SNext 4 true]
  = ({| got := 2; want_more := false; finished := true |}, [ONext 1; ONext 2; ONext 3; ONext 4; OCompleted], [2]).
Proof. exact batching_example. Qed.
Print Assumptions C20_example.
