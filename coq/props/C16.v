(* C16 — Setup handshake: faithful SETUP first; correct accept/reject.
   Statements only; proofs in proofs/SetupProofs.v; model in model/Setup.v. *)
From Coq Require Import ZArith NArith List Init.Byte.
From RSV Require Import gen.GenConst lib.Bytes model.Frame model.Setup proofs.FrameProofs proofs.SetupProofs.
Import ListNotations.
Open Scope N_scope.

Theorem C16_constants :
  PROTOCOL_MAJOR_VERSION = 1 /\ PROTOCOL_MINOR_VERSION = 0 /\
  EC_UNSUPPORTED_SETUP = 2 /\ EC_REJECTED_SETUP = 3 /\ EC_REJECTED_RESUME = 4 /\ EC_INVALID_SETUP = 1.
Proof. exact gen_setup_constants. Qed.
Print Assumptions C16_constants.

(* the SETUP frame, as the peer decodes it from the wire under either back end, states exactly the
   configuration: version 1.0, both periods in milliseconds, both MIME types, lease flag, payload *)
Theorem C16_setup_fields : forall bk c, wf_cfg c = true -> decode bk (encode (setup_frame c)) = DOk (setup_frame c).
Proof. exact setup_on_wire. Qed.
Print Assumptions C16_setup_fields.

(* milliseconds: exact on whole milliseconds, within half a millisecond for sub-millisecond parts
   (integer model of round(total_seconds()*1000); the IEEE arithmetic itself is validated, not proved) *)
Theorem C16_ms_exact : forall k, (0 <= k)%Z -> to_ms (1000 * k) = Z.to_N k.
Proof. exact to_ms_whole. Qed.
Print Assumptions C16_ms_exact.
Theorem C16_ms_close : forall us, (0 <= us)%Z -> (Z.abs (1000 * Z.of_N (to_ms us) - us) <= 500)%Z.
Proof. exact to_ms_close. Qed.
Print Assumptions C16_ms_close.

(* SETUP precedes every other frame on a new connection, and is written once, for EVERY schedule of
   application requests, provider/transport suspensions and sender steps *)
Theorem C16_setup_first : forall ls,
  let s := crun ls in
  (wire s = [] \/ exists w, wire s = TSetup :: w /\ ~ In TSetup w) /\ (ready s = false -> wire s = []).
Proof. exact setup_first. Qed.
Print Assumptions C16_setup_first.

(* the defect repaired by fix c522af0: publishing the transport before SETUP is queued breaks it *)
Theorem C16_setup_first_early_publish_refuted : exists ls, wire (fold_left estep ls conn_init) = [TOther 7].
Proof. exact early_publish_refuted. Qed.
Print Assumptions C16_setup_first_early_publish_refuted.

(* server: on_setup runs (once, with the frame's encodings and payload) exactly for a SETUP on stream 0
   without resume, with lease only if a lease publisher exists, whose on_setup does not raise *)
Theorem C16_server_accept : forall f pub raises denc mdenc md d sl,
  server_decision f pub raises = SAccept denc mdenc md d sl <->
  exists ign lease major minor ka ml,
    f = FSetup 0 ign lease major minor ka ml None mdenc denc md d /\
    (lease = true -> pub = true) /\ raises = false /\ sl = lease.
Proof. exact server_accept_iff. Qed.
Print Assumptions C16_server_accept.

(* ... and every rejection is an ERROR on stream 0 with the matching code *)
Theorem C16_server_errors : forall f pub raises sid code,
  server_decision f pub raises = SError sid code ->
  sid = 0 /\
  ((exists ign lease major minor ka ml tok mdenc denc md d,
      f = FSetup 0 ign lease major minor ka ml (Some tok) mdenc denc md d /\ code = EC_UNSUPPORTED_SETUP) \/
   (exists ign major minor ka ml mdenc denc md d,
      f = FSetup 0 ign true major minor ka ml None mdenc denc md d /\ pub = false /\ code = EC_UNSUPPORTED_SETUP) \/
   (exists ign lease major minor ka ml mdenc denc md d,
      f = FSetup 0 ign lease major minor ka ml None mdenc denc md d /\ (lease = true -> pub = true) /\
      raises = true /\ code = EC_REJECTED_SETUP) \/
   (exists ign major minor tok ls fc, f = FResume 0 ign major minor tok ls fc /\ code = EC_REJECTED_RESUME)).
Proof. exact server_errors. Qed.
Print Assumptions C16_server_errors.
