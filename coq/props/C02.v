(* C02 — Frame codec round-trip, canonical bytes, backend independence.
   Statements only; proofs in proofs/FrameProofs.v; model in model/Frame.v (rsocket/frame.py,
   frame_helpers.py, transports/tcp.py's partial write); constants regenerated in gen/GenConst.v. *)
From Coq Require Import NArith List Init.Byte.
From RSV Require Import gen.GenConst lib.Bytes model.Frame proofs.FrameProofs.
Import ListNotations.
Open Scope N_scope.

(* the regenerated constants have the shapes the codec relies on *)
Theorem C02_constants :
  (MASK_31_BITS = N.ones 31 /\ MASK_63_BITS = N.ones 63 /\ HEADER_LENGTH = 6) /\
  (FLAG_IGNORE_BIT = 512 /\ FLAG_METADATA_BIT = 256 /\ FLAG_FOLLOWS_BIT = 128 /\ FLAG_RESUME_BIT = 128 /\
   FLAG_RESPOND_BIT = 128 /\ FLAG_LEASE_BIT = 64 /\ FLAG_COMPLETE_BIT = 64 /\ FLAG_NEXT_BIT = 32) /\
  forallb (fun t => t <? 64) frame_class_ids = true.
Proof. split; [exact gen_masks|]. split; [exact gen_flag_bits|exact gen_type_ids_fit_6_bits]. Qed.
Print Assumptions C02_constants.

(* For every frame value of each of the 14 types within the wire format's ranges (wf), under
   either back end, decoding its encoding yields the same fields; the only normalisation is
   that a PAYLOAD with content carries NEXT. Data and metadata are arbitrary byte strings of
   any length below the 24-bit limit. *)
Theorem C02_decode_encode : forall bk f, wf f = true -> decode bk (encode f) = DOk (norm f).
Proof. exact decode_encode. Qed.
Print Assumptions C02_decode_encode.

(* re-encoding the decoded frame reproduces the bytes *)
Theorem C02_reencode : forall bk f g, wf f = true -> decode bk (encode f) = DOk g -> encode g = encode f.
Proof. exact reencode. Qed.
Print Assumptions C02_reencode.

(* the incrementally written form (3-byte length, prefix, metadata, data) is byte-identical to the
   one-shot length-prefixed encoding, and its length field is the length of the encoding *)
Theorem C02_partial_write : forall f,
  encode_partial f = be 3 (lenN (encode f)) ++ encode f /\ encode_partial f = encode_prefixed f.
Proof. intro f. split; [apply partial_write|apply partial_is_prefixed]. Qed.
Print Assumptions C02_partial_write.

Theorem C02_length_field_exact : forall f, lenN (encode f) < 2 ^ 24 ->
  get_be 3 (encode_partial f) = Some (lenN (encode f), encode f).
Proof. exact prefix_length_exact. Qed.
Print Assumptions C02_length_field_exact.

(* results do not depend on the back end *)
Theorem C02_backend_independent : forall f, wf f = true -> decode Native (encode f) = decode Cbit (encode f).
Proof. exact backend_independent_on_encodings. Qed.
Print Assumptions C02_backend_independent.

(* METADATA_PUSH must use stream 0: on any other stream it is dropped by the decoder *)
Theorem C02_metadata_push_nonzero_ignored : forall bk sid ign md,
  0 < sid < 2 ^ 31 -> lenN md < 2 ^ 24 -> decode bk (encode (FMetadataPush sid ign md)) = DIgnored.
Proof. exact metadata_push_nonzero_ignored. Qed.
Print Assumptions C02_metadata_push_nonzero_ignored.
