(* C15 — Keepalive: echo, periodic emission, timeout detection.
   Statements only; proofs in proofs/KeepaliveProofs.v; model in model/Keepalive.v
   (RSocketBase.handle_keep_alive, RSocketClient._keepalive_send_task / _keepalive_timeout_task).
   Time is virtual (microseconds, Z); timer lateness is an explicit parameter. *)
From Coq Require Import ZArith NArith List Init.Byte.
From RSV Require Import lib.Bytes model.Frame model.Keepalive proofs.FrameProofs proofs.KeepaliveProofs.
Import ListNotations.
Open Scope Z_scope.

(* A KEEPALIVE with the respond flag is answered by exactly one KEEPALIVE without the flag, same
   position, same data; one without the flag, and every other frame type, by nothing. *)
Theorem C15_echo : forall f,
  match f with
  | FKeepalive sid ign true pos d => ka_echo f = [FKeepalive sid ign false pos d]
  | _ => ka_echo f = []
  end.
Proof. exact echo_spec. Qed.
Print Assumptions C15_echo.

(* ... and the answer, as decoded by the peer from the wire under either back end, is that frame *)
Theorem C15_echo_on_wire : forall bk sid ign pos d, (sid < 2 ^ 31)%N -> (pos < 2 ^ 63)%N ->
  map (fun g => decode bk (encode g)) (ka_echo (FKeepalive sid ign true pos d)) = [DOk (FKeepalive sid ign false pos d)].
Proof. exact echo_on_wire. Qed.
Print Assumptions C15_echo_on_wire.

(* periodic emission: with exact timers the n-th probe is queued at t0 + n*P *)
Theorem C15_period : forall n t0 P,
  send_times t0 P (repeat 0 n) = map (fun k => t0 + P * Z.of_nat k) (seq 1 n).
Proof. exact send_times_exact. Qed.
Print Assumptions C15_period.

(* no false timeout: while keepalives keep arriving at most L apart (counting from the start of the
   connection) and a check always has a later arrival to come, the callback never runs *)
Theorem C15_no_false_timeout : forall evs L last, covered L last evs -> detect L last evs = [].
Proof. exact no_false_timeout. Qed.
Print Assumptions C15_no_false_timeout.

(* detection: a check more than L after the last moment s at which anything arrived invokes the callback *)
Theorem C15_detects : forall evs L last s c,
  last <= s -> L < c - s -> In (Check c) evs -> silent_until s c evs -> In c (detect L last evs).
Proof. exact detects. Qed.
Print Assumptions C15_detects.

(* ... and such a check exists no later than 2L + delta after s when every timer is at most delta late *)
Theorem C15_check_within : forall ds t0 L delta s,
  0 < L -> Forall (fun d => 0 <= d <= delta) ds -> t0 <= s ->
  (exists c, In c (check_times t0 L ds) /\ s + L < c) ->
  exists c, In c (check_times t0 L ds) /\ s + L < c <= s + 2 * L + delta.
Proof. exact check_within. Qed.
Print Assumptions C15_check_within.
