(* C17 — Reconnect yields a fresh, working connection.
   Statements only; proofs in proofs/ClientProofs.v; model in model/Client.v (settled-step model of
   RSocketClient.connect / _reconnect_listener / _close / keepalive timeout and RSocketBase._on_connection_closed). *)
From Coq Require Import NArith List.
From RSV Require Import gen.GenConst model.Client proofs.ClientProofs.
Import ListNotations.
Open Scope N_scope.

(* A reconnect, from ANY state of a client that has connected once (healthy, dead after a keepalive timeout,
   closed after EOF / a transport error, with or without pending requests), takes the next transport,
   writes a fresh SETUP on it, is alive, restarts stream ids, closes the old transport, and fails every
   request that was pending exactly once; the application's close notification is delivered once if a
   connection was still up *)
Theorem C17_reconnect_fresh : forall s, conn s <> 0%nat ->
  let s' := do_reconnect true s in
  conn s' = S (conn s) /\ connected s' = true /\ alive s' = true /\ wire s' = [WSetup] /\ pending s' = [] /\
  last_id s' = 0 /\ closed s' = closed s ++ [(conn s - 1)%nat] /\
  failed s' = failed s ++ map (fun sid => ((conn s - 1)%nat, sid)) (pending s) /\
  on_close_calls s' = (if connected s then S (on_close_calls s) else on_close_calls s).
Proof. exact reconnect_fresh. Qed.
Print Assumptions C17_reconnect_fresh.

(* requests issued afterwards are served: the first gets stream id 1 and goes out right after SETUP *)
Theorem C17_served_after_reconnect : forall p s, conn s <> 0%nat ->
  let s' := cstep true p (do_reconnect true s) AReq in wire s' = [WSetup; WReq 1] /\ pending s' = [1].
Proof. exact served_after_reconnect. Qed.
Print Assumptions C17_served_after_reconnect.

(* each cause named in the property — connection loss (EOF or transport error), keepalive timeout,
   explicit reconnect while healthy — leads to exactly that reconnect when the handler asks for it *)
Theorem C17_causes : forall s, connected s = true -> conn s <> 0%nat ->
  cstep true {| reconnect_on_close := true; reconnect_on_timeout := true |} s ALoss = do_reconnect true (connection_closed s) /\
  (alive s = true ->
   exists s1, cstep true {| reconnect_on_close := true; reconnect_on_timeout := true |} s AKaTimeout = do_reconnect true s1 /\
              alive s1 = false /\ pending s1 = pending s /\ conn s1 = conn s /\ connected s1 = true) /\
  cstep true {| reconnect_on_close := true; reconnect_on_timeout := true |} s AReconnect = do_reconnect true s.
Proof. exact causes_reconnect. Qed.
Print Assumptions C17_causes.

(* for every sequence of actions and every handler policy (any number of consecutive reconnects): on every
   transport the client ever used, SETUP is the first frame and is written once *)
Theorem C17_setup_on_every_connection : forall p acts,
  let s := crun_client true p acts in
  wire_ok (wire s) /\ Forall (fun c => wire_ok (snd c)) (history s).
Proof. exact setup_first_every_connection. Qed.
Print Assumptions C17_setup_on_every_connection.

(* the defect repaired by fix ddd04f9: without resetting the liveness state in connect(), the connection
   obtained after a keepalive timeout writes nothing, not even SETUP *)
Theorem C17_no_liveness_reset_refuted :
  wire (crun_client false {| reconnect_on_close := false; reconnect_on_timeout := true |} [AConnect; AKaTimeout; AReq]) = [].
Proof. exact no_reset_refuted. Qed.
Print Assumptions C17_no_liveness_reset_refuted.
