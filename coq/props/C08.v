(* C08 — Frames emitted are legal RSocket for the emitter's role.
   Statements only; proofs in proofs/EndpointWire.v, proofs/EndpointProofs.v, proofs/EndpointSignals.v (model/Endpoint.v:
   every frame the endpoint queues is an XEnq effect), proofs/StreamIdsProofs.v (ids it opens), proofs/SetupProofs.v
   (SETUP first).  Queue order is wire order per stream (C05_per_stream). *)
From Coq Require Import Arith NArith List Bool Init.Byte.
From RSV Require Import gen.GenConst lib.Bytes model.Frame model.Fragmenter model.StreamIds model.Setup model.Endpoint
     proofs.StreamIdsProofs proofs.SetupProofs proofs.EndpointProofs proofs.EndpointWire proofs.EndpointWireTypes.
Import ListNotations.
Open Scope N_scope.

(* a client's first frame on a connection is SETUP, written once, for EVERY schedule of application requests,
   provider / transport suspensions and sender steps (C16_setup_first) *)
Theorem C08_setup_first : forall ls,
  let s := crun ls in
  (wire s = [] \/ exists w, wire s = TSetup :: w /\ ~ In TSetup w) /\ (ready s = false -> wire s = []).
Proof. exact setup_first. Qed.
Print Assumptions C08_setup_first.

(* the ids an endpoint opens: never 0, its own parity, not in use, over every history of allocations and releases *)
Theorem C08_opened_ids :
  forall m first ops, 1 <= m -> first = 1 \/ first = 2 ->
    Forall (fun '(id, act) => id <> 0 /\ id < 2 ^ m /\ id mod 2 = first mod 2 /\ mem id act = false)
           (allocs (sc_init first (N.ones m)) ops).
Proof. exact allocs_history. Qed.
Print Assumptions C08_opened_ids.

(* stream and channel requests carry the object's initial request-n and are never fragments-in-progress; a channel
   request is flagged complete exactly when there is no local publisher *)
Theorem C08_request_frames u e oid hs md d o : nth_error (objs e) oid = Some o ->
  forall g, In g (enqs (snd (ep_step u e (LSubscribe oid hs md d)))) ->
  match g with
  | FRequestStream s _ fo n _ _ => s = o_sid o /\ fo = false /\ n = o_n o
  | FRequestChannel s _ fo co n _ _ => s = o_sid o /\ fo = false /\ n = o_n o /\ co = negb (o_has_pub o)
  | _ => False
  end.
Proof. exact (request_frames_carry_object_n u e oid hs md d o). Qed.
Print Assumptions C08_request_frames.

(* that request-n is positive: the default is, and initial_request_n(n) with n <= 0 raises, changes nothing and
   sends nothing *)
Theorem C08_default_n_positive k sid : 0 < o_n (mk_obj k sid).
Proof. exact (default_initial_n_positive k sid). Qed.
Print Assumptions C08_default_n_positive.
Theorem C08_nonpositive_n_rejected u e oid n :
  snd (ep_step u e (LInitialN oid n false)) = (match nth_error (objs e) oid with Some _ => [XRaised] | None => [] end) /\
  objs (fst (ep_step u e (LInitialN oid n false))) = objs e.
Proof. exact (initial_n_positive_only u e oid n). Qed.
Print Assumptions C08_nonpositive_n_rejected.

(* what an endpoint sends in reaction to a received frame — ANY frame, any handler behaviour, any reachable state:
   an ERROR on that frame's stream, the KEEPALIVE answer on stream 0, or the empty COMPLETE with which a responder
   without a publisher closes its direction of a channel; nothing else, and nothing on another stream *)
Theorem C08_reactions u e f o : EndpointProofs.Inv e -> Forall (reaction_ok f) (enqs (snd (ep_step u e (LRecv f o)))).
Proof. exact (recv_reaction u e f o). Qed.
Print Assumptions C08_reactions.

(* every application call, done-callback and publisher signal on an object queues frames on that object's stream only *)
Theorem C08_local_actions u e l oid : label_oid l = Some oid -> on_own_stream e oid (snd (ep_step u e l)).
Proof. exact (local_action_own_stream u e l oid). Qed.
Print Assumptions C08_local_actions.

(* ... and only frame types its role in that interaction allows: the table [kind_allows] (request-response requester:
   REQUEST_RESPONSE, CANCEL; stream requester: REQUEST_STREAM, REQUEST_N, CANCEL; channel requester: REQUEST_CHANNEL,
   REQUEST_N, CANCEL, PAYLOAD, ERROR; responders: PAYLOAD, ERROR, and for a channel REQUEST_N, CANCEL), for every section
   the API offers on such an object [label_fits] *)
Theorem C08_local_action_types u e l oid o : label_oid l = Some oid -> nth_error (objs e) oid = Some o ->
  label_fits l (o_kind o) = true ->
  Forall (fun g => kind_allows (o_kind o) g = true) (enqs (snd (ep_step u e l))).
Proof. exact (local_action_types u e l oid o). Qed.
Print Assumptions C08_local_action_types.

(* each new stream begins with the request frame of its interaction model, on the freshly allocated id (stream and
   channel requests are sent by subscribe(): C08_request_frames) *)
Theorem C08_request_opens_stream u e md d sid e1 : alloc e = (Some sid, e1) ->
  enqs (snd (ep_step u e (LReqResponse md d))) = [FRequestResponse sid false false md d] /\
  enqs (snd (ep_step u e (LFnf md d))) = [FRequestFnf sid false false md d] /\
  enqs (snd (ep_step u e (LReqStream md d))) = [] /\ (forall hp, enqs (snd (ep_step u e (LReqChannel md d hp))) = []).
Proof. exact (request_opens_stream u e md d sid e1). Qed.
Print Assumptions C08_request_opens_stream.

(* a request-response requester never answers a frame (no ERROR when the response races the caller's cancellation:
   the defect repaired by fix 96f0669) *)
Theorem C08_rr_requester_silent e oid o f u : o_kind o = KRRReq ->
  enqs (snd (fst (handler_frame e oid o f u))) = [] /\
  (snd (handler_frame e oid o f u) = true -> exists s i c d, f = FError s i c d /\ u = false /\ o_fut o = FPending).
Proof. exact (rr_requester_queues_nothing e oid o f u). Qed.
Print Assumptions C08_rr_requester_silent.

(* once a stream is gone (finished in any of the ways of C10) frames still arriving for it cause nothing to be sent *)
Theorem C08_nothing_after_finish e f o u : is_fragmentable f = false -> is_request_type f = false ->
  fsid f <> CONNECTION_STREAM_ID -> tget (table e) (fsid f) = None -> recv_frame e f o u = (e, []).
Proof. exact (unknown_stream_dropped e f o u). Qed.
Print Assumptions C08_nothing_after_finish.

(* when the connection is lost the sweep queues nothing at all *)
Theorem C08_close_sends_nothing u e : enqs (snd (ep_step u e LClose)) = [].
Proof. exact (close_sends_nothing u e). Qed.
Print Assumptions C08_close_sends_nothing.

(* REFUTED for abnormal endings of a channel (finding F16, KF-C08-channel-after-terminal): after its own CANCEL the
   requester's publisher direction stays open and PAYLOAD frames are still queued on the stream *)
Theorem C08_channel_payload_after_cancel_refuted :
  enqs (snd (ep_step true (fst (ep_step true f16_ep (LCancel 0))) (LPubNext 0 [] [x09] false)))
  = [FPayload 1 false false false true [] [x09]].
Proof. exact channel_payload_after_cancel. Qed.
Print Assumptions C08_channel_payload_after_cancel_refuted.
