From RSV Require Import model.Routing.
Theorem C19_stub : True. Proof. exact I. Qed.
Print Assumptions C19_stub.
