(* C19 — Routed dispatch is exact and the authentication gate cannot be bypassed.
   Statements only; proofs in proofs/RoutingProofs.v; model in model/Routing.v (routing/request_router.py,
   routing/routing_request_handler.py, extensions/helpers.require_route).
   Quantification: every registration program rs (any sequence of decorator applications of the five route
   decorators and the five *_unknown decorators, any route names incl. None / '' / duplicates, any handler signature
   and behaviour), or directly every table state tb; every request method m of the five; every metadata (unparseable,
   or any list of routing / authentication / other entries in any order, any tag lists incl. empty ones and tags that
   are not UTF-8); every verifier (absent, or any function of route and credentials); any deserializer/serializer
   behaviour.  `Ran h args r`: exactly the registered coroutine h was called, with args; `ErrorOn k w`: none was. *)
From Coq Require Import NArith List Init.Byte.
From RSV Require Import gen.GenConst lib.Bytes model.Routing proofs.RoutingProofs.
Import ListNotations.
Open Scope N_scope.

(* The tables read off the source agree with the specification's pairing of request methods and decorators: the
   frame type a request method passes to route() selects the dict its decorator fills and the Handlers field its
   *_unknown decorator sets, and no two decorators share a dict or a field. *)
Theorem C19_tables : forall m,
  assocN (meth_frame_type m) route_map_by_frame_type = Some (deco_slot (deco_of_meth m)) /\
  assocN (meth_frame_type m) unknown_route_chain = Some (deco_unknown (deco_of_meth m)) /\
  (forall d d', deco_slot d = deco_slot d' -> d = d') /\
  (forall d d', deco_unknown d = deco_unknown d' -> d = d') /\
  (forall m', deco_of_meth m = deco_of_meth m' -> m = m').
Proof. exact tables_full. Qed.
Print Assumptions C19_tables.

(* what the router holds after a program of decorator applications: per decorator and name the first successful
   registration, per decorator the last unknown-route handler *)
Theorem C19_registration : forall rs d n,
  lookup_route n (get_slot (deco_slot d) (build rs)) = first_registered rs d n /\
  get_unknown (deco_unknown d) (build rs) = last_unknown rs d.
Proof. exact registration. Qed.
Print Assumptions C19_registration.

(* the route of a request is the first tag of its first routing entry, wherever that entry stands *)
Theorem C19_first_tag : forall l n, require_route l = inr n <->
  exists pre tags post, l = pre ++ ERoute (Tag n :: tags) :: post /\ (forall ts, ~ In (ERoute ts) pre).
Proof. exact require_route_first. Qed.
Print Assumptions C19_first_tag.

(* EXACT. A handler that ran is the one registered under the request's own decorator for exactly the request's route,
   or, when there is none, that decorator's unknown-route handler. *)
Theorem C19_exact : forall rs v des_ok ser_ok m md h args r,
  dispatch (build rs) v des_ok ser_ok m md = Ran h args r ->
  exists l n H, md = MItems l /\ require_route l = inr n /\ selected rs m n = Some H /\ hid H = h.
Proof. exact exact. Qed.
Print Assumptions C19_exact.

(* ... hence it was registered with this type's decorator (for this very name, or as its unknown-route handler):
   never a handler known only to another interaction type or another route *)
Theorem C19_exact_own_type : forall rs v des_ok ser_ok m md h args r,
  dispatch (build rs) v des_ok ser_ok m md = Ran h args r ->
  exists l n H, md = MItems l /\ require_route l = inr n /\ hid H = h /\
    (In (Reg (deco_of_meth m) (Some n) H) rs \/ In (RegUnknown (deco_of_meth m) H) rs).
Proof. exact exact_own_type. Qed.
Print Assumptions C19_exact_own_type.

(* the same on any table state, however it was produced *)
Theorem C19_exact_tables : forall tb v des_ok ser_ok m md h args r,
  dispatch tb v des_ok ser_ok m md = Ran h args r ->
  exists l n H, md = MItems l /\ require_route l = inr n /\ hid H = h /\
    (lookup_route n (get_slot (deco_slot (deco_of_meth m)) tb) = Some H \/
     (lookup_route n (get_slot (deco_slot (deco_of_meth m)) tb) = None /\
      get_unknown (deco_unknown (deco_of_meth m)) tb = Some H)).
Proof. exact exact_tables. Qed.
Print Assumptions C19_exact_tables.

(* delivery: the selected handler does run once the gate is passed (and the payload deserializer, if a parameter
   needs it, does not raise — see delivered_needs_deserializer in the proofs file for why that is needed) *)
Theorem C19_delivered : forall rs v des_ok ser_ok m l n H,
  require_route l = inr n -> verify_authentication v n l = None -> selected rs m n = Some H ->
  (forall c, In (Some c) (map needs_deserializer (hparams H)) -> des_ok c = true) ->
  dispatch (build rs) v des_ok ser_ok m (MItems l) =
  Ran (hid H) (map arg_of (hparams H)) (expected_result m ser_ok (hdoes H)).
Proof. exact delivered. Qed.
Print Assumptions C19_delivered.

(* ERROR ON THAT REQUEST ALONE. With neither a route nor an unknown-route handler for it (or no usable routing
   entry, or unparseable metadata) no handler runs and the outcome is that interaction's error outcome.  dispatch is
   a function of the tables and the request and returns no new tables: nothing else is affected. *)
Theorem C19_error_local : forall rs v des_ok ser_ok m md,
  (forall l n, md = MItems l -> require_route l = inr n -> selected rs m n = None) ->
  exists w, dispatch (build rs) v des_ok ser_ok m md = ErrorOn (meth_error m) w.
Proof. exact error_local. Qed.
Print Assumptions C19_error_local.

Theorem C19_error_local_other_registrations : forall rs v des_ok ser_ok m l n,
  require_route l = inr n ->
  (forall H, ~ In (Reg (deco_of_meth m) (Some n) H) rs) ->
  (forall H, ~ In (RegUnknown (deco_of_meth m) H) rs) ->
  exists w, dispatch (build rs) v des_ok ser_ok m (MItems l) = ErrorOn (meth_error m) w.
Proof. exact other_registrations_never_run. Qed.
Print Assumptions C19_error_local_other_registrations.

Theorem C19_error_reasons : forall rs v des_ok ser_ok m,
  dispatch (build rs) v des_ok ser_ok m MUnparseable = ErrorOn (meth_error m) WParse /\
  (forall l w, require_route l = inl w -> dispatch (build rs) v des_ok ser_ok m (MItems l) = ErrorOn (meth_error m) w) /\
  (forall l n, require_route l = inr n -> verify_authentication v n l = None -> selected rs m n = None ->
     dispatch (build rs) v des_ok ser_ok m (MItems l) = ErrorOn (meth_error m) WUnknownRoute).
Proof. exact error_reasons. Qed.
Print Assumptions C19_error_reasons.

Theorem C19_no_route_reasons : forall l w, require_route l = inl w ->
  (w = WNoRoute /\ forall tags, ~ In (ERoute tags) l) \/
  ((w = WEmptyTags \/ w = WBadTag) /\ exists tags, In (ERoute tags) l).
Proof. exact require_route_reasons. Qed.
Print Assumptions C19_no_route_reasons.

(* the per-type error outcome: error future / error stream / (error stream, null subscriber) / swallowed and logged;
   every error a request ends in, before or after a handler ran, has its own type's kind *)
Theorem C19_error_kinds :
  meth_error MResponse = EFuture /\ meth_error MStream = EStream /\ meth_error MChannel = EChannelStream /\
  meth_error MFnf = ESwallowed /\ meth_error MPush = ESwallowed.
Proof. exact error_kinds. Qed.
Print Assumptions C19_error_kinds.

Theorem C19_error_kind_only : forall tb v des_ok ser_ok m md,
  (forall k w, dispatch tb v des_ok ser_ok m md = ErrorOn k w -> k = meth_error m) /\
  (forall h args k w, dispatch tb v des_ok ser_ok m md = Ran h args (Failed k w) ->
     k = meth_error m /\ (w = WHandler \/ (w = WSerialize /\ m = MResponse /\ ser_ok = false))).
Proof. exact error_kind_only. Qed.
Print Assumptions C19_error_kind_only.

(* GATE. With a verifier configured, a handler of ANY of the five request methods, on ANY table state (routes and
   unknown-route handlers alike), runs only for a request that carries an authentication entry whose credentials
   the verifier accepted for the request's route. *)
Theorem C19_gate : forall tb f des_ok ser_ok m md h args r,
  dispatch tb (Some f) des_ok ser_ok m md = Ran h args r ->
  exists l n a, md = MItems l /\ require_route l = inr n /\ first_auth l = Some a /\ f n a = true.
Proof. exact gate. Qed.
Print Assumptions C19_gate.

Theorem C19_gate_no_credentials : forall tb f des_ok ser_ok m l,
  (forall a, ~ In (EAuth a) l) ->
  exists w, dispatch tb (Some f) des_ok ser_ok m (MItems l) = ErrorOn (meth_error m) w.
Proof. exact gate_no_credentials. Qed.
Print Assumptions C19_gate_no_credentials.

Theorem C19_gate_rejected : forall tb f des_ok ser_ok m l,
  (forall n a, In (EAuth a) l -> f n a = false) ->
  exists w, dispatch tb (Some f) des_ok ser_ok m (MItems l) = ErrorOn (meth_error m) w.
Proof. exact gate_rejected. Qed.
Print Assumptions C19_gate_rejected.

(* remark: only the FIRST authentication entry is ever shown to the verifier *)
Theorem C19_gate_first_credentials_only :
  dispatch (build one_route) (Some only_cred_1) (fun _ => true) true MResponse
           (MItems [ERoute [Tag [x61]]; EAuth 2; EAuth 1]) = ErrorOn EFuture WAuthRejected /\
  dispatch (build one_route) (Some only_cred_1) (fun _ => true) true MResponse
           (MItems [ERoute [Tag [x61]]; EAuth 1; EAuth 2]) = Ran 7 [] (Delivered DFuture).
Proof. exact gate_first_credentials_only. Qed.
Print Assumptions C19_gate_first_credentials_only.

(* ARGUMENTS. Each declared parameter of the handler that ran received: the parsed composite metadata when it is
   named composite_metadata or annotated CompositeMetadata; the payload when it has no annotation or is annotated
   Payload; the deserializer's output for its annotation otherwise (and the deserializer returned for all of them). *)
Theorem C19_arguments : forall rs v des_ok ser_ok m md h args r,
  dispatch (build rs) v des_ok ser_ok m md = Ran h args r ->
  exists l n H, md = MItems l /\ require_route l = inr n /\ selected rs m n = Some H /\ hid H = h /\
    args = map arg_of (hparams H) /\
    (forall c, In (Some c) (map needs_deserializer (hparams H)) -> des_ok c = true) /\
    r = expected_result m ser_ok (hdoes H).
Proof. exact arguments. Qed.
Print Assumptions C19_arguments.

Theorem C19_argument_table : forall a c,
  arg_of {| p_named_cm := true; p_annot := a |} = VComposite /\
  arg_of {| p_named_cm := false; p_annot := AnComposite |} = VComposite /\
  arg_of {| p_named_cm := false; p_annot := AnEmpty |} = VPayload /\
  arg_of {| p_named_cm := false; p_annot := AnPayload |} = VPayload /\
  arg_of {| p_named_cm := false; p_annot := AnOther c |} = VDeserialized c.
Proof. exact arg_table. Qed.
Print Assumptions C19_argument_table.

(* remark: the NAME wins over the annotation — `composite_metadata: Payload` receives the composite metadata *)
Theorem C19_arguments_name_overrides_annotation :
  dispatch (build [Reg DStream (Some [x61]) {| hid := 1; hparams := [{| p_named_cm := true; p_annot := AnPayload |}];
                                               hdoes := HRetOther |}])
           None (fun _ => true) true MStream (MItems [ERoute [Tag [x61]]]) = Ran 1 [VComposite] (Delivered DAsIs).
Proof. exact name_overrides_annotation. Qed.
Print Assumptions C19_arguments_name_overrides_annotation.

(* The dispatch tables the model uses ARE the ones in the source: regenerated on every run
   (gen/GenRouting.v, from the dict literal, the if/elif chain, the decorators and the except clauses). *)
From RSV Require Import gen.GenRouting proofs.RoutingGenTie.
Theorem C19_tables_from_source :
  map (fun p => (fst p, slot_code (snd p))) route_map_by_frame_type = gen_route_map /\
  map (fun p => (fst p, ufield_code (snd p))) unknown_route_chain = gen_unknown_chain /\
  map (fun d => (deco_code d, slot_code (deco_slot d))) all_decos = gen_deco_slot /\
  map (fun d => (deco_code d, ufield_code (deco_unknown d))) all_decos = gen_deco_unknown /\
  map (fun m => (meth_code m, meth_frame_type m, errkind_code (meth_error m), meth_returns m)) all_meths = gen_meth_table /\
  wrap_frame_type = gen_wrap_frame_type.
Proof. exact routing_tables_match_source. Qed.
Print Assumptions C19_tables_from_source.
