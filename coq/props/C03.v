(* C03 — Fragmentation and reassembly are exact and respect the size limit.
   Statements only; proofs in proofs/FragmenterProofs.v; model in model/Fragmenter.v
   (frame_fragmenter.py, frame.new_frame_fragment/get_header_length, frame_fragment_cache.py).
   All theorems quantify over every fragmentable frame value (five types), every metadata and data
   byte string, every fragment size >= MINIMUM_FRAGMENT_SIZE_BYTES (64, regenerated) and both framing modes. *)
From Coq Require Import NArith List Init.Byte.
From RSV Require Import gen.GenConst lib.Bytes model.Frame model.Fragmenter proofs.FrameProofs proofs.FragmenterProofs.
Import ListNotations.
Open Scope N_scope.

Theorem C03_tables :
  fragmentable_ids = [FT_PAYLOAD; FT_REQUEST_RESPONSE; FT_REQUEST_CHANNEL; FT_REQUEST_STREAM; FT_REQUEST_FNF] /\
  frame_header_length_table = [(FT_PAYLOAD, 6); (FT_REQUEST_RESPONSE, 6); (FT_REQUEST_FNF, 6); (FT_REQUEST_STREAM, 10); (FT_REQUEST_CHANNEL, 10)] /\
  MINIMUM_FRAGMENT_SIZE_BYTES = 64.
Proof. exact gen_fragment_tables. Qed.
Print Assumptions C03_tables.

(* the per-type header budget of the fragmenter equals the fixed part of that type's encoding *)
Theorem C03_header_budget : forall f, is_fragmentable f = true -> header_length_of f = 6 + lenN (middle f).
Proof. exact header_length_is_prefix. Qed.
Print Assumptions C03_header_budget.

(* the fragments carry exactly the metadata and exactly the data of the frame, in order *)
Theorem C03_content : forall f sz lenreq, is_fragmentable f = true -> MINIMUM_FRAGMENT_SIZE_BYTES <= sz ->
  concat (map fmd (frame_fragments f (Some sz) lenreq)) = fmd f /\
  concat (map fdata (frame_fragments f (Some sz) lenreq)) = fdata f.
Proof. exact frame_content. Qed.
Print Assumptions C03_content.

(* at least one fragment; the first has the original type and initial request-n, the rest are PAYLOAD;
   all on the frame's stream; FOLLOWS on all but the last; COMPLETE only on the last, equal to the frame's *)
Theorem C03_shape : forall f sz lenreq, is_fragmentable f = true -> MINIMUM_FRAGMENT_SIZE_BYTES <= sz ->
  let frs := frame_fragments f (Some sz) lenreq in
  frs <> [] /\
  (forall g r, frs = g :: r -> ftype g = ftype f /\ freqn g = freqn f /\ Forall (fun h => ftype h = FT_PAYLOAD) r) /\
  Forall (fun g => fsid g = fsid f /\ fign g = fign f) frs /\
  (exists init l, frs = init ++ [l] /\ ffollows l = false /\ fcomplete l = fcomplete f /\
                  Forall (fun g => ffollows g = true /\ fcomplete g = false) init).
Proof. exact frame_shape. Qed.
Print Assumptions C03_shape.

(* all metadata precedes any data: a prefix of fragments without data, then a fragment after which no
   fragment carries metadata *)
Theorem C03_metadata_first : forall f sz lenreq, is_fragmentable f = true -> MINIMUM_FRAGMENT_SIZE_BYTES <= sz ->
  exists a b, frame_fragments f (Some sz) lenreq = a ++ b /\
    Forall (fun g => fdata g = []) a /\ Forall (fun g => fmd g = []) (tl b).
Proof. exact frame_metadata_first. Qed.
Print Assumptions C03_metadata_first.

(* a frame that fits is sent as a single frame; without a configured size always *)
Theorem C03_single_if_fits : forall f sz (lenreq : bool), is_fragmentable f = true -> MINIMUM_FRAGMENT_SIZE_BYTES <= sz ->
  lenN (fmd f) + lenN (fdata f) <= sz - header_length_of f - (if lenreq then 3 else 0) ->
  exists g, frame_fragments f (Some sz) lenreq = [g].
Proof. exact frame_single_if_fits. Qed.
Print Assumptions C03_single_if_fits.
Theorem C03_unfragmented : forall f lenreq, exists g, frame_fragments f None lenreq = [g] /\
  fmd g = fmd f /\ fdata g = fdata f /\ ffollows g = false.
Proof. exact unfragmented_single. Qed.
Print Assumptions C03_unfragmented.

(* SIZE LIMIT. The clause "each fragment is no longer on the wire than the configured size" is FALSE of
   the code (known finding KF-C03-md-length-field): witness below.  What holds for every input: a
   fragment exceeds the size by at most 3 bytes, and only when it carries metadata (the 3-byte
   metadata-length field is not budgeted). *)
Theorem C03_wire_bound_refuted :
  exists g, In g (frame_fragments f2_witness (Some 64) false) /\ 64 < wire_len false g.
Proof. exact wire_bound_refuted. Qed.
Print Assumptions C03_wire_bound_refuted.
Theorem C03_wire_bound_known : forall f sz lenreq, is_fragmentable f = true -> MINIMUM_FRAGMENT_SIZE_BYTES <= sz ->
  Forall (fun g => wire_len lenreq g <= sz + 3 /\ (fmd g = [] -> wire_len lenreq g <= sz))
         (frame_fragments f (Some sz) lenreq).
Proof. exact frame_wire_bound. Qed.
Print Assumptions C03_wire_bound_known.

(* REASSEMBLY. Fed the decoded fragments in order, an empty FrameFragmentCache absorbs all but the last
   and then hands out one frame with the original type, stream, request-n, COMPLETE flag, metadata and
   data, and is empty again. *)
Theorem C03_reassembly : forall f sz lenreq, is_fragmentable f = true -> MINIMUM_FRAGMENT_SIZE_BYTES <= sz ->
  let frs := frame_fragments f (Some sz) lenreq in
  exists R, cache_feed [] (map norm frs) = ([], map (fun _ => AAbsorbed) (removelast frs) ++ [AFrame R]) /\
    ftype R = ftype f /\ fsid R = fsid f /\ fign R = fign f /\ freqn R = freqn f /\
    fmd R = fmd f /\ fdata R = fdata f /\ fcomplete R = fcomplete f.
Proof. exact reassembly. Qed.
Print Assumptions C03_reassembly.
