(* C05 — Per-stream wire order and fragment contiguity under multiplexing.
   Statements only; proofs in proofs/SendQueueProofs.v; model in model/SendQueue.v (RSocketBase.send_frame,
   send_priority_frame, _requeue_partially_sent, _get_next_frame_to_send) and model/Fragmenter.v (the receiver's cache). *)
From Coq Require Import NArith List Init.Byte.
From RSV Require Import gen.GenConst lib.Bytes model.Frame model.Fragmenter model.SendQueue proofs.FragmenterProofs proofs.SendQueueProofs proofs.PipelinePrio.
Import ListNotations.
Open Scope N_scope.

(* For EVERY history of send_frame calls and sender steps (any frames on any streams, queued at any moment
   relative to the sender's progress), every fragment size >= 64 or none, both framings, and every stream k:
   what has been written on k, followed by what is still queued for k, is exactly the concatenation of the
   fragment lists of the frames queued for k, frame after frame in queue order.  Hence: queue order is wire
   order per stream, fragments of one frame are contiguous within their stream, nothing is lost or duplicated. *)
Theorem C05_per_stream : forall size lenreq, size_ok size -> forall ls k, no_prio ls ->
  let s := qrun size lenreq ls in
  on k (wire s) ++ pending (q s) k = concat (map (emissions size lenreq) (on k (enqueued ls))).
Proof. exact per_stream. Qed.
Print Assumptions C05_per_stream.

(* The same with send_priority_frame calls (SETUP, on stream 0) anywhere in the history: a priority frame goes in front of
   everything queued, and changes nothing for any stream it is not on.  So the per-stream statement holds for EVERY
   history — requests made while the client connects or reconnects included — and every stream k no priority frame is
   queued on. *)
Theorem C05_per_stream_with_priority : forall size lenreq, size_ok size -> forall ls k,
  Forall (fun l => match l with QPrio f => fsid f <> k | _ => True end) ls ->
  let s := qrun size lenreq ls in
  on k (wire s) ++ pending (q s) k = concat (map (emissions size lenreq) (on k (enqueued ls))).
Proof. exact per_stream_prio. Qed.
Print Assumptions C05_per_stream_with_priority.

(* one sender step writes the head of its stream's pending fragments and leaves every other stream untouched *)
Theorem C05_step : forall qq x q', Q qq -> send_step qq = Some (x, q') ->
  Q q' /\ pending qq (fsid x) = x :: pending q' (fsid x) /\ forall k, k <> fsid x -> pending q' k = pending qq k.
Proof. exact send_step_spec. Qed.
Print Assumptions C05_step.

(* the priority frame (SETUP) is put ahead of everything already queued *)
Theorem C05_priority : forall size lenreq qq f k,
  pending (enq_priority size lenreq qq f) k = (if fsid f =? k then emissions size lenreq f else []) ++ pending qq k.
Proof. exact prio_spec. Qed.
Print Assumptions C05_priority.

(* receiver: appending a frame reads and writes only its own stream's reassembly entry ... *)
Theorem C05_cache_local : forall c f k, k <> fsid f -> cache_get (fst (cache_append c f)) k = cache_get c k.
Proof. exact cache_append_local. Qed.
Print Assumptions C05_cache_local.

(* ... so for ANY interleaving of streams the answers given to the frames of stream k are exactly those of
   feeding stream k's frames alone: concurrently sent fragmented frames are never merged across streams *)
Theorem C05_interleaving_irrelevant : forall k fs c1 c2, cache_get c1 k = cache_get c2 k ->
  answers_on k c1 fs = snd (cache_feed c2 (on k fs)).
Proof. exact interleaving_irrelevant. Qed.
Print Assumptions C05_interleaving_irrelevant.

(* the defect repaired by fix fbd3cfd (F4): rotating the partially sent frame to the very back lets a later
   frame of the SAME stream (here the completion) go out between its fragments *)
Theorem C05_rotate_back_refuted :
  map (fun g => (ffollows g, lenN (fdata g))) (wire f4_run) = [(true, 58); (false, 0); (false, 42)].
Proof. exact rotate_back_refuted. Qed.
Print Assumptions C05_rotate_back_refuted.
