(* C07 — Every interaction terminates at most once at the API.
   Statements only; proofs in proofs/EndpointSignals.v and proofs/EndpointProofs.v; model in model/Endpoint.v
   (handlers/*.py, rsocket_base.py dispatch, stream_control.py stop_all_streams).
   A history is ANY list of atomic sections: received frames (legal or not), application calls in any order,
   done-callbacks, publisher signals, and the close sweep at any position. *)
From Coq Require Import Arith NArith List Bool Init.Byte.
From RSV Require Import gen.GenConst lib.Bytes model.Frame model.Fragmenter model.StreamIds model.Endpoint
     proofs.EndpointProofs proofs.EndpointSignals proofs.EndpointSubscribe proofs.EndpointKinds proofs.EndpointSweep.
Import ListNotations.
Open Scope N_scope.

(* The awaitable of request_response: over EVERY history, for every requester object, the library sets a result or an
   exception at most once ... *)
Theorem C07_awaitable_at_most_once first ls oid :
  (futs oid (concat (snd (ep_run (ep_init first) ls))) <= 1)%nat.
Proof. exact (awaitable_resolved_at_most_once first ls oid). Qed.
Print Assumptions C07_awaitable_at_most_once.

(* ... and never once it is resolved or the caller has cancelled it (no InvalidStateError, no second outcome) *)
Theorem C07_no_resolution_unless_pending ls e oid o : Inv e -> nth_error (objs e) oid = Some o -> o_fut o <> FPending ->
  futs oid (concat (snd (ep_run e ls))) = 0%nat.
Proof. exact (no_resolution_unless_pending ls e oid o). Qed.
Print Assumptions C07_no_resolution_unless_pending.

(* one atomic section: a resolution happens only while the awaitable is pending, and ends that *)
Theorem C07_step_awaitable u e l oid : Inv e ->
  (futs oid (snd (ep_step u e l)) + pend (fst (ep_step u e l)) oid <= pend e oid)%nat.
Proof. exact (step_futs u e l oid). Qed.
Print Assumptions C07_step_awaitable.

(* loss of the connection at ANY point: the sweep fails a pending request exactly once, fails the subscriber of a
   stream once, and tells a channel's subscriber nothing if its receiving direction had already completed *)
Theorem C07_close_by_kind e sid oid ob : nth_error (objs e) oid = Some ob -> o_sid ob = sid ->
  snd (close_one e sid oid) =
  match o_kind ob with
  | KRRReq => match o_fut ob with FPending => [XFut oid false [] []] | _ => [] end
  | KRRResp => match o_fut ob with FPending => [XAppFutCancel oid] | _ => [] end
  | KRSReq => if o_has_sub ob then [XCb oid SError] else []
  | KRSResp => [XPub oid PCancelOp]
  | KChanReq => (if o_recv ob then [] else if o_has_sub ob then [XCb oid SError] else [])
                ++ (if o_has_pub ob then [XPub oid PCancelOp] else [])
  | KChanResp => if o_has_pub ob then [XPub oid PCancelOp] else []
  end.
Proof. exact (close_one_effects e sid oid ob). Qed.
Print Assumptions C07_close_by_kind.

(* Subscribers.  One atomic section delivers at most one element/terminal signal to a subscriber, none once its
   receiving side is closed (stream gone, or a channel's receive direction marked complete: by the peer's terminal frame,
   by the local cancel, or because no subscriber was given), and a terminal signal closes it — for EVERY label *)
Theorem C07_step_signals u e l oid : Inv e ->
  (length (dsigs oid (snd (ep_step u e l))) <= opn e oid)%nat /\
  (tcount oid (snd (ep_step u e l)) + opn (fst (ep_step u e l)) oid <= opn e oid)%nat.
Proof. exact (step_sigs u e l oid). Qed.
Print Assumptions C07_step_signals.

(* hence over EVERY history — any peer behaviour, any order of local actions, the connection lost anywhere: at most
   one terminal signal (completion, error, or an element flagged complete) and nothing after it *)
Theorem C07_terminal_at_most_once first ls oid :
  ok_sigs (dsigs oid (concat (snd (ep_run (ep_init first) ls)))).
Proof. exact (subscriber_terminal_at_most_once first ls oid). Qed.
Print Assumptions C07_terminal_at_most_once.

(* ... from any reachable state *)
Theorem C07_terminal_at_most_once_from : forall ls e oid, Inv e -> ok_sigs (dsigs oid (concat (snd (ep_run e ls)))).
Proof. exact run_sigs_ok. Qed.
Print Assumptions C07_terminal_at_most_once_from.

(* on_subscribe comes first: over EVERY history the first signal a subscriber is ever given is on_subscribe *)
Theorem C07_on_subscribe_first : forall first ls oid,
  match sigs oid (concat (snd (ep_run (ep_init first) ls))) with [] => True | s :: _ => s = SSubscribe end.
Proof. exact on_subscribe_comes_first. Qed.
Print Assumptions C07_on_subscribe_first.

(* the whole close sweep, from every reachable state: exactly the per-kind effects of every stream registered at that
   moment, judged by its state at that moment, oldest registration first; nothing else *)
Theorem C07_close_sweep_complete : forall u e, Inv e -> snd (ep_step u e LClose) = sweep_of e (rev (table e)).
Proof. exact close_sweep_complete. Qed.
Print Assumptions C07_close_sweep_complete.

(* non-vacuity: element, completion, then loss of the connection; the premise holds and close adds nothing *)
Theorem C07_example :
  let ls := [(LReqChannel [] [x01] true, true); (LSubscribe 0 true [] [x01], true);
             (LRecv (FPayload 1 false false false true [] [x02]) ONone, true);
             (LRecv (FPayload 1 false false true false [] []) ONone, true); (LClose, true)] in
  dsigs 0 (concat (snd (ep_run (ep_init 1) ls))) = [SNext [] [x02] false; SComplete].
Proof. exact sigs_example2. Qed.
Print Assumptions C07_example.
