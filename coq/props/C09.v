(* C09 — Cancellation stops the stream at both ends.
   Statements only; proofs in proofs/EndpointSignals.v, proofs/EndpointProofs.v (endpoint side) and
   proofs/PublisherProofs.v (the library's stream sources stop producing: C06_cancel_* are restated here).
   Model: model/Endpoint.v, model/Publisher.v. *)
From Coq Require Import Arith NArith List Bool Init.Byte.
From RSV Require Import model.Publisher proofs.PublisherProofs.
From RSV Require Import gen.GenConst lib.Bytes model.Frame model.Fragmenter model.StreamIds model.Endpoint
     proofs.EndpointProofs proofs.EndpointSignals proofs.EndpointKinds.
Import ListNotations.
Open Scope N_scope.

(* stream subscription: cancel() sends exactly one CANCEL, drops the stream, and in EVERY continuation (frames still
   in flight, further local calls, loss of the connection) the canceller's subscriber is told nothing more *)
Theorem C09_stream_cancel u e oid o : Inv e -> nth_error (objs e) oid = Some o -> o_kind o = KRSReq ->
  ep_step u e (LCancel oid) = (finish e (o_sid o), [XEnq (f_cancel (o_sid o))]) /\
  forall ls, dsigs oid (concat (snd (ep_run (finish e (o_sid o)) ls))) = [].
Proof. exact (rs_cancel_silences u e oid o). Qed.
Print Assumptions C09_stream_cancel.

(* elements in flight for the cancelled stream are dropped without a trace *)
Theorem C09_inflight_dropped e sid ign co nx md d o u : gone e sid -> sid <> CONNECTION_STREAM_ID ->
  recv_frame e (FPayload sid ign false co nx md d) o u = (e, []).
Proof. exact (gone_payload_dropped e sid ign co nx md d o u). Qed.
Print Assumptions C09_inflight_dropped.

(* request-response: after the caller cancels the awaitable the library never resolves it, in any continuation, and the
   done-callback sends exactly one CANCEL (none if the response had already been received) *)
Theorem C09_response_cancel u e oid o : Inv e -> nth_error (objs e) oid = Some o -> o_kind o = KRRReq -> o_fut o = FPending ->
  let e1 := fst (ep_step u e (LFutCancel oid)) in
  (forall ls, futs oid (concat (snd (ep_run e1 ls))) = 0%nat) /\
  (forall r, snd (ep_step u e1 (LFutCb oid r)) = if o_responded o then [] else [XEnq (f_cancel (o_sid o))]).
Proof. exact (rr_cancel_silences u e oid o). Qed.
Print Assumptions C09_response_cancel.

(* the peer's side: CANCEL cancels the handler's future / the publisher in the same atomic section ... *)
Theorem C09_cancel_reaches_producer e oid o u : o_has_pub o = true \/ is_chan (o_kind o) = false ->
  snd (fst (handler_frame e oid o (FCancel (o_sid o) false) u)) =
  match o_kind o with
  | KRRResp => match o_fut o with FPending => [XAppFutCancel oid] | _ => [] end
  | KRSResp | KChanReq | KChanResp => [XPub oid PCancelOp]
  | _ => []
  end.
Proof. exact (cancel_reaches_producer e oid o u). Qed.
Print Assumptions C09_cancel_reaches_producer.

(* ... and the responder's stream is gone, so nothing more is sent for it *)
Theorem C09_responder_dropped e oid o u : o_kind o = KRRResp ->
  let '(e', effs, raised) := handler_frame e oid o (FCancel (o_sid o) false) u in
  gone e' (o_sid o) /\ raised = false /\ effs = (match o_fut o with FPending => [XAppFutCancel oid] | _ => [] end).
Proof. exact (cancel_rr_responder e oid o u). Qed.
Print Assumptions C09_responder_dropped.

(* production stops: once the library's stream source (StreamFromGenerator, StreamFromAsyncGenerator, both
   BackPressurePublishers; model/Publisher.v, tied to the code by the C06 and C09 correspondences) has been cancelled —
   at ANY moment, also before its feeder task ever ran — under every further schedule of requests and task steps
   nothing is handed to the subscriber and the source is not pulled again *)
Theorem C09_source_cancel_silences : forall ls s, Publisher.cancelled s = true ->
  Publisher.delivered (fold_left pstep ls s) = Publisher.delivered s /\ Publisher.cancelled (fold_left pstep ls s) = true.
Proof. exact cancel_silences. Qed.
Print Assumptions C09_source_cancel_silences.
Theorem C09_source_cancel_stops_production : forall ls s, Publisher.cancelled s = true ->
  Publisher.remaining (fold_left pstep ls s) = Publisher.remaining s /\ Publisher.outq (fold_left pstep ls s) = Publisher.outq s.
Proof. exact cancel_stops_production. Qed.
Print Assumptions C09_source_cancel_stops_production.
Theorem C09_source_cancel_takes_effect : forall s, Publisher.cancelled (pstep s PCancel) = true.
Proof. exact cancel_is_cancelled. Qed.
Print Assumptions C09_source_cancel_takes_effect.

(* isolation: a local cancel, and a CANCEL frame from the peer, touch only their own stream *)
Theorem C09_local_cancel_isolated u e oid o k : nth_error (objs e) oid = Some o -> k <> o_sid o ->
  let e' := fst (ep_step u e (LCancel oid)) in
  tget (table e') k = tget (table e) k /\ cache_get (cachek e') k = cache_get (cachek e) k /\
  (forall j, j <> oid -> nth_error (objs e') j = nth_error (objs e) j).
Proof. exact (local_cancel_isolated u e oid o k). Qed.
Print Assumptions C09_local_cancel_isolated.
Theorem C09_peer_cancel_isolated e f o u k : WF e -> CWF (cachek e) -> k <> fsid f ->
  let '(e', effs) := recv_frame e f o u in
  tget (table e') k = tget (table e) k /\ cache_get (cachek e') k = cache_get (cachek e) k /\ enq_on (fsid f) effs.
Proof. exact (recv_frame_local e f o u k). Qed.
Print Assumptions C09_peer_cancel_isolated.

(* a channel whose own sending direction is still open stays registered after cancel() (finding F16, see C10), but its
   receive direction is closed: elements still in flight are dropped (this used to be finding
   KF-C09-channel-cancel-inflight; repaired in the repository) *)
Theorem C09_channel_cancel_inflight_dropped e oid o sid ign fo co nx md d u : is_chan (o_kind o) = true -> o_recv o = true ->
  handler_frame e oid o (FPayload sid ign fo co nx md d) u = (e, [], false).
Proof. exact (channel_closed_payload_silent e oid o sid ign fo co nx md d u). Qed.
Print Assumptions C09_channel_cancel_inflight_dropped.
Theorem C09_channel_cancel_example :
  snd (recv_frame (fst (ep_step true f16_ep (LCancel 0))) (FPayload 1 false false false true [] [x07]) ONone true) = [].
Proof. exact channel_cancel_inflight_dropped. Qed.
Print Assumptions C09_channel_cancel_example.
