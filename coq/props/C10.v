(* C10 — No per-stream state survives a terminated interaction.
   Statements only; proofs in proofs/EndpointProofs.v; model in model/Endpoint.v.  [gone e sid]: stream sid has
   neither a table entry nor a partially reassembled frame, hence its id is available again
   (assert_stream_id_available looks at exactly the table).  Each theorem is for ANY state in which the ending occurs. *)
From Coq Require Import Arith NArith List Bool Init.Byte.
From RSV Require Import gen.GenConst lib.Bytes model.Frame model.Fragmenter model.StreamIds model.Endpoint
     proofs.EndpointProofs.
Import ListNotations.
Open Scope N_scope.

(* request-response, requester: response or error delivered (an ERROR whose text does not decode leaves a pending
   awaitable registered — the caller can still cancel it) *)
Theorem C10_rr_requester e oid o f u : o_kind o = KRRReq ->
  (match f with FPayload _ _ _ _ _ _ _ => True | FError _ _ _ _ => u = true \/ o_fut o <> FPending | _ => False end) ->
  gone (fst (fst (handler_frame e oid o f u))) (o_sid o).
Proof. exact (end_rr_requester e oid o f u). Qed.
Print Assumptions C10_rr_requester.

(* ... or cancelled by the caller before any response *)
Theorem C10_rr_requester_cancel e oid o u r : nth_error (objs e) oid = Some o -> o_kind o = KRRReq -> o_fut o = FCancelled ->
  o_responded o = false -> gone (fst (ep_step u e (LFutCb oid r))) (o_sid o).
Proof. exact (end_rr_cancel_gone e oid o u r). Qed.
Print Assumptions C10_rr_requester_cancel.

(* request-response, responder: the application's future completes in any way, or the peer cancels *)
Theorem C10_rr_responder e oid o u r : nth_error (objs e) oid = Some o -> o_kind o = KRRResp ->
  gone (fst (ep_step u e (LFutCb oid r))) (o_sid o) /\
  snd (ep_step u e (LFutCb oid r)) =
    match r with ARResult md d => [XEnq (f_payload (o_sid o) md d true true)]
               | ARError => [XEnq (f_error (o_sid o) EC_APPLICATION_ERROR [])] | ARCancel => [] end.
Proof. exact (end_rr_responder e oid o u r). Qed.
Print Assumptions C10_rr_responder.

Theorem C10_rr_responder_cancelled e oid o u : o_kind o = KRRResp ->
  let '(e', effs, raised) := handler_frame e oid o (FCancel (o_sid o) false) u in
  gone e' (o_sid o) /\ raised = false /\ effs = (match o_fut o with FPending => [XAppFutCancel oid] | _ => [] end).
Proof. exact (cancel_rr_responder e oid o u). Qed.
Print Assumptions C10_rr_responder_cancelled.

(* request-stream, requester: completion (flagged on the last element or empty), peer error, local cancel *)
Theorem C10_rs_requester_complete e oid o sid ign fo nx md d u : o_kind o = KRSReq -> o_has_sub o = true ->
  let '(e', effs, raised) := handler_frame e oid o (FPayload sid ign fo true nx md d) u in
  gone e' (o_sid o) /\ raised = false /\ effs = [XCb oid (if nx then SNext md d true else SComplete)].
Proof. exact (end_rs_requester e oid o sid ign fo nx md d u). Qed.
Print Assumptions C10_rs_requester_complete.

Theorem C10_rs_requester_error e oid o sid ign code d : o_kind o = KRSReq -> o_has_sub o = true ->
  let '(e', effs, raised) := handler_frame e oid o (FError sid ign code d) true in
  gone e' (o_sid o) /\ raised = false /\ effs = [XCb oid SError].
Proof. exact (error_rs_requester e oid o sid ign code d). Qed.
Print Assumptions C10_rs_requester_error.

Theorem C10_rs_requester_cancel u e oid o : nth_error (objs e) oid = Some o -> o_kind o = KRSReq ->
  gone (fst (ep_step u e (LCancel oid))) (o_sid o).
Proof. exact (cancel_rs_requester_gone u e oid o). Qed.
Print Assumptions C10_rs_requester_cancel.

(* request-stream, responder: the publisher's three terminal signals, and CANCEL from the peer *)
Theorem C10_rs_responder u e oid o : nth_error (objs e) oid = Some o -> o_kind o = KRSResp ->
  (forall md d, ep_step u e (LPubNext oid md d true) = (finish e (o_sid o), [XEnq (f_payload (o_sid o) md d true true)])) /\
  ep_step u e (LPubComplete oid) = (finish e (o_sid o), [XEnq (f_payload (o_sid o) [] [] true false)]) /\
  ep_step u e (LPubError oid) = (finish e (o_sid o), [XEnq (f_error (o_sid o) EC_APPLICATION_ERROR [])]) /\
  handler_frame e oid o (FCancel (o_sid o) false) u = (finish e (o_sid o), [XPub oid PCancelOp], false).
Proof. exact (end_rs_responder u e oid o). Qed.
Print Assumptions C10_rs_responder.
Theorem C10_finish_gone e sid : gone (finish e sid) sid.
Proof. exact (finish_gone e sid). Qed.
Print Assumptions C10_finish_gone.

(* channel: the two directions close in either order; the entry goes exactly when both are closed *)
Theorem C10_channel_both e oid o s r : is_chan (o_kind o) = true ->
  (o_sent o || s) && (o_recv o || r) = true -> gone (chan_mark e oid o s r) (o_sid o).
Proof. exact (end_channel_both e oid o s r). Qed.
Print Assumptions C10_channel_both.
Theorem C10_channel_half_closed_stays e oid o s r : (o_sent o || s) && (o_recv o || r) = false ->
  table (chan_mark e oid o s r) = table e.
Proof. exact (channel_half_closed_stays e oid o s r). Qed.
Print Assumptions C10_channel_half_closed_stays.

(* fragments still in flight for a stream that is gone are dropped, not buffered (defect repaired in the repository:
   they used to be kept in the reassembly cache for the life of the connection) *)
Theorem C10_inflight_fragment_dropped e sid ign co nx md d o u : gone e sid ->
  recv_frame e (FPayload sid ign true co nx md d) o u = (e, []).
Proof. exact (gone_fragment_dropped e sid ign co nx md d o u). Qed.
Print Assumptions C10_inflight_fragment_dropped.

(* fire-and-forget never gets an entry; its id is released *)
Theorem C10_fnf u e md d sid e1 : alloc e = (Some sid, e1) -> gone (fst (ep_step u e (LFnf md d))) sid.
Proof. exact (fnf_leaves_nothing u e md d sid e1). Qed.
Print Assumptions C10_fnf.

(* loss of the connection empties the table, from every reachable state *)
Theorem C10_close_empties u e : Inv e -> table (fst (ep_step u e LClose)) = [].
Proof. exact (close_empties u e). Qed.
Print Assumptions C10_close_empties.

(* REFUTED for abnormal endings of a channel (finding F16, KF-C10-channel-abnormal-end): ERROR and CANCEL close one
   direction only, so with the other direction still open the entry survives the termination of the interaction.
   Witnesses, replayed on the implementation by the check: a requester channel with a local publisher ... *)
Theorem C10_channel_error_refuted :
  tget (table (fst (recv_frame f16_ep (FError 1 false EC_APPLICATION_ERROR []) ONone true))) 1 = Some 0%nat.
Proof. exact channel_error_leaves_entry. Qed.
Print Assumptions C10_channel_error_refuted.
Theorem C10_channel_cancel_refuted :
  tget (table (fst (ep_step true f16_ep (LCancel 0)))) 1 = Some 0%nat.
Proof. exact channel_cancel_leaves_entry. Qed.
Print Assumptions C10_channel_cancel_refuted.
