(* C13 — Stream ids: right parity, never zero, never a live id, wrap-around.
   Statements only; proofs are in proofs/StreamIdsProofs.v.  Model: model/StreamIds.v
   (rsocket/stream_control.py), constants regenerated from the source in gen/GenConst.v. *)
From Coq Require Import NArith List.
From RSV Require Import gen.GenConst model.StreamIds proofs.StreamIdsProofs.
From RSV Require model.Frame model.Fragmenter model.Endpoint proofs.EndpointProofs.
Import ListNotations.
Open Scope N_scope.

(* The generated constants have the shape the model's arithmetic relies on:
   the id space is the 31-bit mask, the connection id is 0, client ids start at 1, server at 2. *)
Theorem C13_constants :
  MAX_STREAM_ID = N.ones 31 /\ CONNECTION_STREAM_ID = 0 /\
  CLIENT_FIRST_STREAM_ID = 1 /\ SERVER_FIRST_STREAM_ID = 2.
Proof.
  split; [exact max_stream_id_is_ones|]. split; [exact connection_stream_id_is_zero|exact first_ids].
Qed.
Print Assumptions C13_constants.

(* One allocation, any id-space width m >= 1 (31 in production, 7 in the suite), any table:
   the id is non-zero, in range, has the parity of the current id, is not active, becomes the
   current id, and is the FIRST id in cyclic +2 order after the current one that is neither 0
   nor active (advance by 2, wrap, skip ids in use). *)
Theorem C13_allocate :
  forall m, 1 <= m -> forall s, maxid s = N.ones m ->
  forall id s', allocate s = (Some id, s') ->
    id <> 0 /\ id < 2 ^ m /\ id mod 2 = cur s mod 2 /\ mem id (active s) = false /\
    s' = {| cur := id; active := active s; maxid := maxid s |} /\
    exists k, 1 <= k <= 2 ^ (m - 1) /\ id = kth m s k /\
      forall j, 1 <= j < k -> kth m s j = 0 \/ mem (kth m s j) (active s) = true.
Proof. exact allocate_some. Qed.
Print Assumptions C13_allocate.

(* Allocation fails exactly when every non-zero id of the endpoint's parity is active. *)
Theorem C13_fails_iff_full :
  forall m, 1 <= m -> forall s, maxid s = N.ones m ->
    (fst (allocate s) = None <->
     forall x, 0 < x < 2 ^ m -> x mod 2 = cur s mod 2 -> mem x (active s) = true).
Proof. exact allocate_none_iff. Qed.
Print Assumptions C13_fails_iff_full.

(* Every history of allocate / allocate+register / register / finish from a fresh
   StreamControl(first), first = 1 (client) or 2 (server): every id ever handed out is
   non-zero, in range, of the endpoint's parity, and not active at that moment. *)
Theorem C13_history :
  forall m first ops, 1 <= m -> first = 1 \/ first = 2 ->
    Forall (fun '(id, act) => id <> 0 /\ id < 2 ^ m /\ id mod 2 = first mod 2 /\ mem id act = false)
           (allocs (sc_init first (N.ones m)) ops).
Proof. exact allocs_history. Qed.
Print Assumptions C13_history.

(* registration is refused for id 0 and ids above the maximum; finishing frees exactly that id *)
Theorem C13_register : forall s id, fst (register s id) = true <-> (id <> 0 /\ id <= maxid s).
Proof. exact register_spec. Qed.
Print Assumptions C13_register.
Theorem C13_finish : forall s id,
  mem id (active (finish s id)) = false /\
  forall x, x <> id -> mem x (active (finish s id)) = mem x (active s).
Proof. intros s id. split; [apply finish_frees|intros x; apply finish_keeps]. Qed.
Print Assumptions C13_finish.

(* An incoming request frame (any of the four types, not a fragment) that re-uses the id of a stream which is still
   registered is refused: state unchanged, the application handler is not called, one ERROR(REJECTED) on that id
   (RSocketBase.handle_* -> StreamControl.assert_stream_id_available; model/Endpoint.v) *)
Theorem C13_duplicate_request_rejected e f o u oid :
  Endpoint.is_request_type f = true -> Fragmenter.ffollows f = false ->
  Fragmenter.cache_get (Endpoint.cachek e) (Frame.fsid f) = None ->
  Endpoint.tget (Endpoint.table e) (Frame.fsid f) = Some oid ->
  Endpoint.recv_frame e f o u = (e, [Endpoint.XEnq (Endpoint.f_error (Frame.fsid f) EC_REJECTED [])]).
Proof. exact (EndpointProofs.duplicate_request_rejected e f o u oid). Qed.
Print Assumptions C13_duplicate_request_rejected.
