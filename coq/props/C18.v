(* C18 — Extension metadata codecs round-trip within format limits.
   Statements only; proofs in proofs/MetadataProofs.v; model in model/Metadata.v (composite_metadata.py,
   composite_metadata_item.py, tagging.py, routing.py, stream_data_mimetype.py, authentication*.py,
   helpers.serialize/parse_well_known_encoding, frame_helpers.serialize_128max_value / parse_type / pack_24bit /
   unpack_24bit; the id/name tables are regenerated from mimetypes.py / authentication_types.py into gen/GenMime.v).
   Entries: generic item, routing tags, data MIME type, accepted MIME types, simple / bearer authentication; encodings
   are canonicalised to their name bytes.  [None] = the library raises.
   wf_cm (decidable, model/Metadata.v) is what the round trip needs: a MIME name is a table name with a 7-bit id (not one
   of the two reserved ..._DO_NOT_USE rows) or a custom name of 1..128 bytes; a generic item does not carry the MIME type
   of a typed entry; tags <= 255 bytes; user name < 2^16 bytes; every entry body < 2^24 bytes.
   C18_hypotheses_needed shows that the round trip fails when any one of them is dropped. *)
From Coq Require Import ZArith NArith List Init.Byte.
From Coq Require Strings.String.
From RSV Require Import lib.Bytes gen.GenMime model.Frame model.Metadata proofs.MetadataProofs.
Import ListNotations.
Import Strings.String.StringSyntax.
Open Scope N_scope.

(* encode then decode is the identity on every well-formed entry list (cbitstruct back end, the default) *)
Theorem C18_roundtrip : forall items, wf_cm items = true ->
  exists bs, cm_encode items = Some bs /\ cm_decode bs = Some items.
Proof. exact roundtrip. Qed.
Print Assumptions C18_roundtrip.

(* ... under either bit-packing back end, and both back ends write the same bytes *)
Theorem C18_roundtrip_either_backend : forall bk items, wf_cm items = true ->
  exists bs, cm_encode_bk bk items = Some bs /\ cm_decode bs = Some items.
Proof. exact roundtrip_bk. Qed.
Print Assumptions C18_roundtrip_either_backend.
Theorem C18_backend_independent : forall items, wf_cm items = true ->
  cm_encode_bk Native items = cm_encode_bk Cbit items.
Proof. exact backend_independent. Qed.
Print Assumptions C18_backend_independent.

(* decode then encode reproduces the bytes that encode produced *)
Theorem C18_reencode : forall bk items bs, cm_encode_bk bk items = Some bs -> wf_cm items = true ->
  forall items', cm_decode bs = Some items' -> cm_encode_bk bk items' = Some bs.
Proof. exact reencode. Qed.
Print Assumptions C18_reencode.

(* the generated MIME and authentication tables: names pairwise distinct, ids pairwise distinct, every id a 7-bit id
   except on the two reserved rows, and the name->id (get_by_name) and id->name (require_by_id) lookups are exactly the
   table and mutually inverse *)
Theorem C18_tables_bijective :
  (NoDup (map fst mime_table) /\ NoDup (map snd mime_table) /\
   (forall n id, In (n, id) mime_table -> (0 <= id <= 127)%Z \/ In n reserved_names) /\
   (forall n id, mime_id_of_name n = Some id <-> In (n, id) mime_table) /\
   (forall n id, dict_get_id mime_table id = Some n <-> In (n, id) mime_table) /\
   (forall n id, mime_id_of_name n = Some id <-> dict_get_id mime_table id = Some n)) /\
  (NoDup (map fst auth_table) /\ NoDup (map snd auth_table) /\
   (forall n id, In (n, id) auth_table -> (0 <= id <= 127)%Z \/ In n []) /\
   (forall n id, auth_id_of_name n = Some id <-> In (n, id) auth_table) /\
   (forall n id, dict_get_id auth_table id = Some n <-> In (n, id) auth_table) /\
   (forall n id, auth_id_of_name n = Some id <-> dict_get_id auth_table id = Some n)).
Proof. exact tables_bijective. Qed.
Print Assumptions C18_tables_bijective.
Theorem C18_mime_lookup_inverse : forall n i, mime_name_of_id i = Some n <-> mime_id_of_name n = Some (Z.of_N i).
Proof. exact mime_lookup_inverse_N. Qed.
Print Assumptions C18_mime_lookup_inverse.

(* an over-long custom (non-table) MIME name anywhere -- item encoding, data MIME type, accepted MIME types -- or a tag
   longer than 255 bytes anywhere makes the whole encoding fail: no bytes are produced, under either back end *)
Theorem C18_rejects_overlong : forall bk items e, In e items -> has_overlong e = true -> cm_encode_bk bk items = None.
Proof. exact rejects_overlong. Qed.
Print Assumptions C18_rejects_overlong.

(* the decoder is total: fuel = length of the input suffices and more fuel gives the same result; cm_decode satisfies
   the loop equation of CompositeMetadata.parse with no fuel in it *)
Theorem C18_decode_total : forall bs f, (length bs <= f)%nat -> cm_decode_fuel f bs = cm_decode bs.
Proof. exact decode_total. Qed.
Print Assumptions C18_decode_total.
Theorem C18_decode_unfold : forall buf, cm_decode buf =
  match buf with
  | [] => Some []
  | _ =>
      match parse_wk mime_name_of_id buf with
      | None => None
      | Some (enc, off) =>
          match get_be 3 (dropN buf off) with
          | None => None
          | Some (len, r2) =>
              match parse_item enc (takeN r2 len) with
              | None => None
              | Some e => match cm_decode (dropN r2 len) with Some es => Some (e :: es) | None => None end
              end
          end
      end
  end.
Proof. exact decode_unfold. Qed.
Print Assumptions C18_decode_unfold.

(* each hypothesis of wf_cm is needed: empty custom name; 129-byte custom name; the two reserved rows; a typed MIME
   name on a generic item (decoded as the typed entry, or the decoder raises); a 256-byte tag; a 2^16-byte user name;
   a 2^24-byte body (cbitstruct raises, the native back end writes length 0) *)
Theorem C18_hypotheses_needed :
  rt_fails [EItem [] [x01]] /\
  rt_fails [EItem (repeat x61 129) [x01]] /\
  rt_fails [EItem (ascii "UNPARSEABLE_MIME_TYPE_DO_NOT_USE") [x01; x61]] /\
  rt_fails [EDataMime (ascii "UNKNOWN_YET_RESERVED_DO_NOT_USE")] /\
  rt_fails [EItem (ascii "message/x.rsocket.routing.v0") [x01; x61]] /\
  (exists bs, cm_encode [EItem (ascii "message/x.rsocket.authentication.v0") []] = Some bs /\ cm_decode bs = None) /\
  rt_fails [ERouting [repeat x61 256]] /\
  rt_fails [EAuth (ASimple user_65536 [x62])] /\
  (forall c, lenN c = 16777216 ->
     cm_encode_bk Cbit [EItem [x61] c] = None /\
     exists bs, cm_encode_bk Native [EItem [x61] c] = Some bs /\ cm_decode bs <> Some [EItem [x61] c]).
Proof. exact hypotheses_needed. Qed.
Print Assumptions C18_hypotheses_needed.

(* "decode then encode reproduces the bytes" does NOT extend to arbitrary input bytes: the decoder accepts non-canonical
   spellings (a table name written out as a custom name; typed entries and authentication types likewise) and truncated
   last entries, and re-encoding gives different bytes.  C18_reencode (bytes produced by encode) is the true statement. *)
Theorem C18_reencode_arbitrary_refuted :
  (exists bs items, cm_decode bs = Some items /\ exists bs', cm_encode items = Some bs' /\ bs' <> bs /\
                    bs = x07 :: ascii "text/css" ++ [x00; x00; x01; x61]) /\
  (exists bs items, cm_decode bs = Some items /\ exists bs', cm_encode items = Some bs' /\ bs' <> bs /\
                    bs = [x00; x61; x00; x00; x05; x62; x63]).
Proof. exact reencode_arbitrary_refuted. Qed.
Print Assumptions C18_reencode_arbitrary_refuted.
