(* C04 — Decoded frames are independent of how the byte stream is chunked.
   Statements only; proofs in proofs/ParserProofs.v; model in model/Parser.v (frame_parser.py, the
   read loop of transports/tcp.py, the message transports' use of receive_data(data, 0)).
   Every theorem holds for ANY total frame decoder (Section variable), in particular Frame.decode
   under either back end. *)
From Coq Require Import NArith List Init.Byte.
From RSV Require Import lib.Bytes model.Frame model.Parser proofs.FrameProofs proofs.ParserProofs.
Import ListNotations.
Open Scope N_scope.

(* The decoded items AND the residual buffer depend only on the concatenation of the reads:
   any two chunkings of the same bytes (single bytes, cuts inside the length prefix, empty reads) agree. *)
Theorem C04_chunking : forall decode cs cs',
  concat cs = concat cs' -> feed_all decode [] cs = feed_all decode [] cs'.
Proof. exact chunking_independent. Qed.
Print Assumptions C04_chunking.

(* ... and equal what one pass over the whole stream produces *)
Theorem C04_feed_is_drain : forall decode cs, feed_all decode [] cs = drain_all decode (concat cs).
Proof. exact feed_all_spec. Qed.
Print Assumptions C04_feed_is_drain.

(* Exactness: a stream of correctly delimited bodies followed by any tail yields, in order, exactly
   what each body decodes to on its own -- nothing for an ignored frame, one invalid marker for an
   undecodable one -- followed by what the tail yields: none lost, none duplicated, a bad body does
   not disturb the frames after it. *)
Theorem C04_exact : forall decode bodies tail, Forall (fun b => lenN b < 2 ^ 24) bodies ->
  drain_all decode (concat (map delimit bodies) ++ tail) =
    let (o, r) := drain_all decode tail in (concat (map (fun b => items_of (decode b)) bodies) ++ o, r).
Proof. exact drain_delimited. Qed.
Print Assumptions C04_exact.

(* with the real decoder: valid frame values come out as themselves (normalised) *)
Theorem C04_valid_frames : forall bk fs, Forall (fun f => wf f = true /\ lenN (encode f) < 2 ^ 24) fs ->
  drain_all (decode bk) (concat (map (fun f => delimit (encode f)) fs)) = (map (fun f => IFrame (norm f)) fs, []).
Proof. exact valid_frames. Qed.
Print Assumptions C04_valid_frames.

(* what was decoded from a prefix of the stream is a prefix of what the whole stream decodes to
   (a connection cut at any byte offset has delivered a prefix of the frames) *)
Theorem C04_prefix : forall decode a b, exists o2,
  fst (drain_all decode (a ++ b)) = fst (drain_all decode a) ++ o2.
Proof. exact prefix_outputs. Qed.
Print Assumptions C04_prefix.

(* termination of the byte-stream loop: fuel = number of buffered bytes always suffices, and the
   residual buffer never contains a complete frame *)
Theorem C04_terminates : forall decode fuel buf, (length buf <= fuel)%nat ->
  drain decode fuel buf = drain_all decode buf /\ split_frame (snd (drain_all decode buf)) = None.
Proof. exact drain_terminates. Qed.
Print Assumptions C04_terminates.

(* message framing: each non-empty message yields exactly the frame it contains; an empty message
   yields nothing and terminates *)
Theorem C04_message : forall decode data, data <> [] -> forall fuel, (2 <= fuel)%nat ->
  msg_feed decode true fuel [] data = Some (items_of (decode data), []).
Proof. exact msg_nonempty. Qed.
Print Assumptions C04_message.
Theorem C04_empty_message : forall decode fuel, (1 <= fuel)%nat -> msg_feed decode true fuel [] [] = Some ([], []).
Proof. exact msg_empty_guarded. Qed.
Print Assumptions C04_empty_message.
(* F3, repaired in the repository: without the `total > 0` conjunct an empty message never terminates *)
Theorem C04_empty_message_unguarded_diverges : forall decode fuel, msg_feed decode false fuel [] [] = None.
Proof. exact msg_empty_unguarded_diverges. Qed.
Print Assumptions C04_empty_message_unguarded_diverges.
