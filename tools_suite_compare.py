#!/venv/bin/python
"""Compare a junit xml of the repository's suite with BASELINE.json's stable_pass list."""
import json, sys
import xml.etree.ElementTree as ET
b = json.load(open('/root/.vp/BASELINE.json'))
stable = set(b['stable_pass'])
t = ET.parse(sys.argv[1]).getroot()
ts = t if t.tag == 'testsuite' else t[0]
res = {}
for c in ts:
    if c.tag != 'testcase':
        continue
    name = c.attrib['classname'] + '::' + c.attrib['name']
    bad = any(x.tag in ('failure', 'error') for x in c)
    skipped = any(x.tag == 'skipped' for x in c)
    res[name] = 'fail' if bad else ('skip' if skipped else 'pass')
missing = [s for s in stable if s not in res]
failed = [s for s in stable if res.get(s) in ('fail', 'skip')]
print('stable_pass: %d; passing now: %d; failing: %d; missing: %d' % (
    len(stable), sum(1 for s in stable if res.get(s) == 'pass'), len(failed), len(missing)))
for s in failed[:40]:
    print('FAIL', s)
for s in missing[:10]:
    print('MISSING', s)
