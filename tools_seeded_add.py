#!/usr/bin/env python3
"""usage: tools_seeded_add.py <name> <patch> <demo.py> <meta.json> [confirmation.json]
Stores a confirmed seeded change as seeded/<name>/ with its patch rebased onto /repo HEAD (done in a scratch worktree)."""
import json, os, shutil, subprocess, sys

name, patch, demo, meta = sys.argv[1:5]
conf = sys.argv[5] if len(sys.argv) > 5 else None
wt = '/tmp/scratch/seed-' + name
subprocess.run(['git', '-C', '/repo', 'worktree', 'prune'])
shutil.rmtree(wt, ignore_errors=True)
subprocess.run(['git', '-C', '/repo', 'worktree', 'add', '-q', '--detach', wt, 'HEAD'], check=True)
try:
    r = subprocess.run(['git', 'apply', patch], cwd=wt, capture_output=True, text=True)
    if r.returncode:
        r = subprocess.run(['git', 'apply', '--3way', patch], cwd=wt, capture_output=True, text=True)
        if r.returncode:
            sys.exit('%s: patch does not apply: %s' % (name, r.stderr))
        subprocess.run(['git', 'reset', '-q'], cwd=wt)
    diff = subprocess.run(['git', 'diff'], cwd=wt, capture_output=True, text=True, check=True).stdout
    if not diff.strip():
        sys.exit(name + ': empty diff')
    head = subprocess.run(['git', '-C', '/repo', 'rev-parse', '--short', 'HEAD'], capture_output=True, text=True).stdout.strip()
    d = os.path.join(os.path.dirname(os.path.abspath(__file__)), 'seeded', name)
    os.makedirs(d, exist_ok=True)
    open(os.path.join(d, 'patch.diff'), 'w').write(diff)
    shutil.copy(demo, os.path.join(d, 'demo.py'))
    m = json.load(open(meta))
    m.setdefault('property', name.split('-')[0])
    if conf:
        m['confirmation'] = json.load(open(conf))
    m['patch_rebased_onto'] = head
    json.dump(m, open(os.path.join(d, 'meta.json'), 'w'), indent=1)
    print(name, 'stored,', len(diff.splitlines()), 'diff lines')
finally:
    subprocess.run(['git', '-C', '/repo', 'worktree', 'remove', '--force', wt])
