#!/usr/bin/env python3
"""usage: tools_seeded_matrix_par.py [--workers K] [ids or properties...]
The matrix of tools_seeded_matrix.py, run in K scratch worktrees of /repo side by side (VERIF_REPO; /repo itself is not
touched).  A change that alters what the translator reads (coq/gen would be rewritten) cannot run beside others: those are
handed to tools_seeded_matrix.py afterwards, one at a time on /repo.  Results are merged into seeded/RESULTS.json / .md."""
import glob
import json
import os
import re
import subprocess
import sys
from concurrent.futures import ThreadPoolExecutor

sys.path.insert(0, os.path.dirname(os.path.abspath(__file__)))
import tools_seeded_matrix as M  # noqa: E402

V, R = '/verif', '/repo'
sh = M.sh


def gen_same(wt):
    probe = wt + '.gen'
    sh(['rm', '-rf', probe])
    os.makedirs(probe, exist_ok=True)
    sh(['/venv/bin/python', V + '/harness/gen.py'], env=dict(os.environ, VERIF_GEN_OUT=probe, VERIF_REPO=wt))
    same = True
    for f in os.listdir(probe):
        if f.endswith('.v'):
            try:
                same = same and open(os.path.join(probe, f)).read() == open(os.path.join(V, 'coq', 'gen', f)).read()
            except OSError:
                same = False
    sh(['rm', '-rf', probe])
    return same


def run_one(wt, name):
    prop = name.split('-')[0]
    patch = '%s/seeded/%s/patch.diff' % (V, name)
    sh(['git', 'checkout', '--', '.'], cwd=wt)
    if sh(['git', 'apply', patch], cwd=wt).returncode != 0:
        return {'id': name, 'applies': False}
    try:
        if not gen_same(wt):
            return None                      # sequential phase
        env = dict(os.environ, VERIF_REPO=wt, VERIF_EVIDENCE_DIR='/tmp/verif-evidence-mutants')
        try:
            out = sh([V + '/check', prop], cwd=V, timeout=1800, env=env)
        except subprocess.TimeoutExpired:
            return {'id': name, 'applies': True, 'exit': 'check timed out', 'violation': [], 'with_failing_input': False,
                    'summary': [], 'broken': ['the check itself did not terminate']}
        txt = out.stdout + out.stderr
        viol = [l for l in txt.splitlines() if l.startswith('VIOLATION')]
        summary = [l for l in txt.splitlines() if re.match(r'C\d+ quick', l)]
        broken = [l[:160] for l in txt.splitlines() if l.startswith('BROKEN')]
        return {'id': name, 'applies': True, 'exit': out.returncode, 'violation': viol[:1],
                'with_failing_input': bool(viol) and 'no-failing-input-found' not in viol[0],
                'summary': summary[:1], 'broken': broken[:2]}
    finally:
        sh(['git', 'checkout', '--', '.'], cwd=wt)


def main():
    args = sys.argv[1:]
    k = 5
    if args[:1] == ['--workers']:
        k = int(args[1])
        args = args[2:]
    names = [os.path.basename(d) for d in sorted(glob.glob(V + '/seeded/C*-*'))]
    names = [n for n in names if not args or n in args or n.split('-')[0] in args]
    sh(['git', '-C', R, 'worktree', 'prune'])
    wts = []
    for i in range(k):
        wt = '/tmp/scratch/matrix-%d' % i
        sh(['git', '-C', R, 'worktree', 'remove', '--force', wt])
        sh(['rm', '-rf', wt])
        r = sh(['git', '-C', R, 'worktree', 'add', '-q', '--detach', wt, 'HEAD'])
        if r.returncode:
            sys.exit(r.stderr)
        wts.append(wt)
    rows, later = [], []

    def worker(i):
        for n in names[i::k]:
            r = run_one(wts[i], n)
            if r is None:
                later.append(n)
                print(n, 'changes the translator output: sequential phase', flush=True)
            else:
                rows.append(r)
                print(r['id'], r.get('exit'), r.get('with_failing_input'), flush=True)
    with ThreadPoolExecutor(max_workers=k) as ex:
        list(ex.map(worker, range(k)))
    for wt in wts:
        sh(['git', '-C', R, 'worktree', 'remove', '--force', wt])
    M.finish(rows, True)
    if later:
        subprocess.run([V + '/tools_seeded_matrix.py'] + sorted(later))


if __name__ == '__main__':
    main()
