#!/venv/bin/python
"""Regenerates MANIFEST.json from the table below (keeps it valid and consistent)."""
import json

TB = ('Trusted: Coq 8.16.1 kernel + vm_compute; harness/gen.py (constants/tables regenerated from /repo each run); the '
      'correspondence harness (inputs and implementation outputs written into cases_*.v and compared with the model inside '
      'Coq); CPython/asyncio/third-party behaviour is modelled, not verified. No axioms (Print Assumptions: closed).')

CHECKS = {
    'C13': dict(
        text='Theorems over every id-space width m>=1 and every history of allocate/register/finish (props/C13.v): ids are '
             'non-zero, of the endpoint parity, not active, the first free id in cyclic +2 order, and allocation fails iff '
             'the parity class is full. Tied to stream_control.py by regenerated constants and an exhaustive (m=3) + random '
             '(m=2..31) correspondence with the real StreamControl, evaluated inside Coq.',
        design_ref='DESIGN.md section 6, C13',
        technique='Coq proof (induction over histories, positive-fuel search spec) + in-Coq correspondence with StreamControl'),
}

CHECKS['C02'] = dict(
    text='Theorems for all 14 frame constructors, all in-range field values, unbounded data/metadata, both header back ends '
         '(props/C02.v): decode(encode f) = norm f, re-encoding reproduces the bytes, the TCP partial write equals the one-shot '
         'length-prefixed encoding with an exact length field, back ends agree. Tied to frame.py/frame_helpers.py/tcp.py by '
         'regenerated constants (flag bits, masks, type ids, error codes) and an in-Coq correspondence over valid frame values and '
         'a malformed stream, run under cbitstruct and (subprocess) native struct.',
    design_ref='DESIGN.md section 6, C02',
    technique='Coq proof (field lemmas, 2^16 header sweep lifted by forallb_forall) + in-Coq correspondence with Frame.serialize/parse_or_ignore/TransportTCP')

CHECKS['C04'] = dict(
    text='Theorems for ANY total frame decoder (props/C04.v): the decoded items and the residual buffer depend only on the '
         'concatenation of the reads (all chunkings, incl. cuts inside the length prefix and empty reads); a stream of delimited '
         'bodies yields exactly each body\'s own decoding in order (bad body isolated); valid frames come out as themselves; prefix '
         'property; the loop terminates with fuel = buffered bytes; message framing yields exactly one frame per non-empty message '
         'and terminates on the empty one (the unguarded loop is proved divergent: the defect repaired by a fix: commit). Tied to '
         'frame_parser.py / tcp.py by an in-Coq correspondence with the real FrameParser and TransportTCP read loop over every '
         'single-cut position, all byte-wise chunkings and random partitions.',
    design_ref='DESIGN.md section 6, C04',
    technique='Coq proof (compositional drain law by induction on buffer length) + in-Coq correspondence with FrameParser/TransportTCP')

CHECKS['C03'] = dict(
    text='Theorems for every fragmentable frame value, every metadata/data byte string, every size >= 64 and both framings '
         '(props/C03.v): fragments carry exactly the content in order; first keeps type and request-n, rest are PAYLOAD; FOLLOWS on '
         'all but the last, COMPLETE only on the last; all metadata before data; every non-final fragment is full, so a frame that '
         'fits is one frame; the receiver reassembles the original frame and its cache is empty again. The size clause is refuted '
         'for the code as it is (witness theorem, known finding KF-C03-md-length-field) and replaced by the exact bound size+3 / '
         'size without metadata. Tied to frame_fragmenter.py / frame.py / frame_fragment_cache.py by regenerated tables and an '
         'in-Coq correspondence over a boundary grid and random lengths (thorough: exhaustive oracle window).',
    design_ref='DESIGN.md section 6, C03',
    technique='Coq proof (phase lemmas by induction on fuel, cache invariant) + in-Coq correspondence with the fragmenter and FrameFragmentCache')

CHECKS['C15'] = dict(
    text='Theorems (props/C15.v): a respond-flagged KEEPALIVE is answered by exactly one KEEPALIVE without the flag, same position and '
         'data (also as decoded from the wire), anything else by nothing; with exact timers the n-th probe is at t0+nP; the detector '
         'never fires while keepalives arrive at most L apart, fires at any check more than L after the last arrival, and such a check '
         'exists within 2L+delta when timers are at most delta late. Tied to rsocket_base.handle_keep_alive and the two client tasks by '
         'an in-Coq correspondence on the single-step virtual-time loop (echo in both roles/framings; grid of period x lifetime x '
         'acknowledgement patterns). Partial: the timer semantics of asyncio.sleep are assumed (virtual clock).',
    design_ref='DESIGN.md section 6, C15',
    technique='Coq proof (arithmetic over virtual time, induction over event lists) + in-Coq correspondence with real client/server under a virtual clock')

CHECKS['C16'] = dict(
    text='Theorems (props/C16.v): the SETUP frame, as decoded from the wire under either back end, states exactly the configuration '
         '(version 1.0, periods in ms exact on whole ms and within half a ms otherwise, MIME types, lease flag, payload); for EVERY '
         'schedule of application requests, provider/transport suspensions and sender steps SETUP is the first frame written and is '
         'written once (the pre-fix early-publish behaviour is proved to break it); the server accepts exactly a SETUP on stream 0 '
         'without resume, with lease only when a publisher exists and on_setup not raising, and every rejection is an ERROR on stream 0 '
         'with UNSUPPORTED_SETUP / REJECTED_SETUP / REJECTED_RESUME. Tied to the code by regenerated constants and an in-Coq '
         'correspondence on the single-step loop (configurations, connect schedules with requests at every tick, SETUP/RESUME frames '
         'fed to a real server). Partial: IEEE arithmetic of to_milliseconds is validated, not proved.',
    design_ref='DESIGN.md section 6, C16',
    technique='Coq proof (codec corollary, invariant over all schedules, decision-table characterisation) + in-Coq correspondence with real client/server')

CHECKS['C19'] = dict(
    text='Theorems over every registration program, every request of the five routable types, every metadata shape and every '
         'verifier (props/C19.v): the handler that runs is exactly the one registered for (type, first tag of the first routing '
         'entry), else that type\'s unknown-route handler, else the per-type error outcome with no handler run; with a verifier '
         'configured no handler of any of the five types runs without an authentication entry the verifier accepts; parameters '
         'receive payload / parsed composite metadata / deserialised payload as the code decides. The dispatch tables are proved '
         'equal to tables regenerated from the source each run. Tied to request_router.py / routing_request_handler.py by an '
         'exhaustive cross-product correspondence through the real decorators and handler methods, evaluated in Coq.',
    design_ref='DESIGN.md section 6, C19',
    technique='Coq proof (decision-logic theorems over all route tables and requests) + regenerated dispatch tables + in-Coq correspondence')

CHECKS['C14'] = dict(
    text='Theorems over every history of requests and LEASE frames at non-decreasing virtual times (props/C14.v): nothing is sent '
         'before the first LEASE; under each lease at most the granted number of requests is sent (those released from the queue '
         'included); a request is sent only before the lease expires; sent ++ still-queued is exactly the arrival order (FIFO, at most '
         'once, none lost; with a bounded queue only QueueFull-refused requests are missing); a published lease is announced as '
         'LEASE(ttl in ms, count) as decoded by the peer. Tied to lease.py / rsocket_base.py by an in-Coq correspondence with a real '
         'lease-honouring client under the virtual clock (four request kinds, fragmentation, bounded queues, expiry boundaries, '
         'reconnects) and a real lease-publishing server.',
    design_ref='DESIGN.md section 6, C14',
    technique='Coq proof (invariant: non-empty queue implies dead lease; induction over histories) + in-Coq correspondence under a virtual clock')

CHECKS['C17'] = dict(
    text='Theorems over the settled-step model of the client connection manager (props/C17.v): a reconnect from ANY state of a client '
         'that has connected once closes the old transport, fails every pending request once, takes the next transport, writes a '
         'fresh SETUP, is alive and restarts stream ids; the next request gets id 1 right after SETUP; EOF / transport error / '
         'keepalive timeout / explicit reconnect each lead to exactly that reconnect; for every action sequence and handler policy '
         'SETUP is first and unique on every transport ever used; the pre-fix behaviour (no liveness reset) is proved dead. Tied to '
         'rsocket_client.py / rsocket_base.py by an in-Coq correspondence driving a real client through random action sequences '
         '(1..6 consecutive reconnects, four handler policies) on the virtual-time loop. Partial: interleavings inside the reconnect '
         'sequence and asyncio task mechanics are only exercised, not modelled.',
    design_ref='DESIGN.md section 6, C17',
    technique='Coq proof (invariant over all action sequences of a settled-step machine) + in-Coq correspondence with a real client and transport provider')

CHECKS['C18'] = dict(
    text='Theorems over every list of composite entries of every kind and both bit-packing back ends (props/C18.v): within the format '
         'limits (wf_cm, each hypothesis shown necessary by an Example) decode(encode items) = items and re-encoding what encode '
         'produced reproduces the bytes; the generated MIME and authentication tables are one-to-one (ids, names, mutually inverse '
         'lookups); over-long names and tags make encode fail rather than produce bytes; cm_decode is total with fuel = length. '
         '"Decode then encode reproduces the bytes" for ARBITRARY input bytes is refuted by witness (the decoder is not injective). '
         'Tied to the extension modules by regenerated tables and an in-Coq correspondence (all entry kinds, boundary lengths, every '
         'well-known id, malformed stream at every truncation offset) under both back ends.',
    design_ref='DESIGN.md section 6, C18',
    technique='Coq proof (round-trip by induction over entry lists, finite table checks by vm_compute) + regenerated tables + in-Coq correspondence')

CHECKS['C05'] = dict(
    text='Theorems for EVERY history of send_frame calls and sender steps, every fragment size >= 64 or none, both framings '
         '(props/C05.v): for each stream, written ++ still-queued = the concatenation of the fragment lists of the frames queued '
         'for it in queue order (so queue order = wire order per stream, fragments contiguous within their stream, nothing lost '
         'or duplicated, other streams may interleave); the priority frame goes first, and with send_priority_frame calls anywhere in '
         'the history the same holds for every stream no priority frame is queued on (C05_per_stream_with_priority); at the receiver appending a frame touches '
         'only its own stream\'s reassembly entry, so for ANY interleaving the answers for a stream equal feeding that stream '
         'alone. The pre-fix rotate-to-back behaviour is proved to break the order (defect repaired by a fix: commit). Tied to '
         'rsocket_base.py by an in-Coq correspondence on a real server with a gated transport (history of queue/sender events '
         'recorded from outside) and a real FrameFragmentCache.',
    design_ref='DESIGN.md section 6, C05',
    technique='Coq proof (per-stream projection invariant; cache locality) + in-Coq correspondence with a real endpoint on a gated transport')

CHECKS['C06'] = dict(
    text='Theorems over the credit-driven producer shared by the library\'s sources, for EVERY schedule of requests, producer steps, '
         'delivery steps and cancel (props/C06.v): delivered + queued never exceeds the credit requested so far and is a prefix of the '
         'source in order (safety); when nothing more can happen without new credit exactly the first <credit> events have been '
         'delivered (every element once enough credit was granted); nothing is delivered after cancel. Tied to '
         'stream_from_generator.py / stream_from_async_generator.py / both back_pressure_publisher.py by an in-Coq correspondence at '
         'settled points plus a per-iteration safety oracle, and through real endpoints: wire PAYLOAD elements vs credit received, '
         'credit values forwarded exactly in both directions (incl. credit requested from inside on_subscribe). The last clause '
         '(credit granted by an application reaches the peer with exactly that value) is also a theorem: Subscription.request(n) queues '
         'exactly one REQUEST_N with n, initial_request_n(n) is what the request frame carries, no other section queues credit, a '
         'dispatched REQUEST_N / request frame gives the producer exactly the frame\'s value, and C06_network_credit: over EVERY '
         'history of two connected endpoints the request(n) calls a side\'s producers are given on a stream are, in order and '
         'without repetition, credit values of frames the peer queued on that stream; tied to the code by two RECORDED real '
         'endpoints with the harness as the link, replayed through net_run inside Coq. Partial: Rx operator internals are assumed.',
    design_ref='DESIGN.md section 6, C06',
    technique='Coq proof (credit invariant over all schedules; quiescence characterisation; credit transmission over a two-endpoint network model) + in-Coq correspondence with the four library sources, real endpoints and two recorded real endpoints linked by the harness')

CHECKS['C12'] = dict(
    text='Theorems (props/C12.v): the byte loop terminates on arbitrary bytes for any decoder verdicts and a bad body does not disturb '
         'the frames after it; for ANY received frame, handler behaviour and state, the table and reassembly entries of every other '
         'stream are untouched and everything queued in reaction is on the offending frame\'s stream; the structural invariant holds '
         'after every history; a request on a free id is then served as on a fresh connection; raising handler -> one ERROR on that '
         'stream, state unchanged; frames for unknown streams dropped. Tied to the code by replaying hostile recorded histories of a '
         'real endpoint (illegal frames, raw bytes, empty messages, raising handlers; both roles and framings) through the model '
         'inside Coq, plus the property oracle: tasks alive, nothing escapes, probe requests in both directions still served.',
    design_ref='DESIGN.md section 6, C12',
    technique='Coq proof (locality of frame handling, invariant over all histories, parser totality) + in-Coq trace correspondence on hostile histories of a real endpoint')

CHECKS['C07'] = dict(
    text='Theorems over ALL histories of atomic sections (props/C07.v): the library resolves a request-response awaitable at most once, '
         'and never after it was resolved or cancelled; per atomic section a subscriber receives at most one element/terminal signal, '
         'none once its receiving side is closed, and a terminal signal closes it, hence over EVERY history (no premise) at most one terminal '
         'signal and nothing after it; on_subscribe is the first signal ever; the complete close sweep theorem. Tied to the code by replaying recorded legal histories of a real endpoint (all models, both '
         'roles/framings, fragmentation, connection lost by EOF/error/close()/mid-frame cut at a random point) through the model inside '
         'Coq, plus the signal-language oracle on the recording application and "no awaitable left pending after close".',
    design_ref='DESIGN.md section 6, C07',
    technique='Coq proof (potential-function invariants over all histories of the endpoint model) + in-Coq trace correspondence with a real endpoint')

CHECKS['C10'] = dict(
    text='Theorems (props/C10.v), each for ANY state in which the ending occurs: after response/error/cancel of a request-response '
         '(both roles), completion (flagged or empty)/error/cancel of a request-stream (both roles), both directions of a channel '
         'complete in either order, and fire-and-forget, the stream has no table entry and no partial frame (id reusable); a half-closed '
         'channel keeps its entry; the close sweep empties the table from every reachable state. REFUTED for abnormal channel endings '
         '(ERROR/CANCEL close one direction only): witnesses in props/C10.v, recorded as known finding KF-C10-channel-abnormal-end. '
         'Tied to the code by comparing the key sets of the real stream table and reassembly cache with the model after every atomic '
         'section of recorded legal histories (all endings, races, fragmentation), plus the quiescence oracle.',
    design_ref='DESIGN.md section 6, C10',
    technique='Coq proof (per-ending theorems and close-sweep theorem on the endpoint model; refutation witnesses for the recorded finding) + in-Coq trace correspondence of table/cache key sets with a real endpoint')

CHECKS['C09'] = dict(
    text='Theorems (props/C09.v): cancel() of a stream subscription sends exactly one CANCEL, drops the stream, and in EVERY continuation '
         'the canceller\'s subscriber is told nothing more; elements and fragments in flight are dropped without trace; after the caller '
         'cancels a request-response the library never resolves it and the callback sends exactly one CANCEL (none if already answered); '
         'a received CANCEL cancels the handler future / publisher in the same atomic section and drops the responder; local and remote '
         'cancels touch only their own stream. for a channel, payloads arriving after its receive direction closed are dropped (formerly finding KF-C09, repaired). Tied to the code by the cancellation projection of recorded histories '
         'of a real endpoint (cancel racing elements, completion, errors and connection loss in the same loop iteration) replayed '
         'through the model in Coq, plus the oracle. That the library\'s sources stop producing after cancel() is C06.',
    design_ref='DESIGN.md section 6, C09',
    technique='Coq proof (cancel theorems over all continuations of the endpoint model; refutation witness for the recorded finding) + in-Coq trace correspondence with a real endpoint')

CHECKS['C11'] = dict(
    text='Theorems (props/C11.v): the close sweep visits every registered stream and does to each what its kind requires (pending '
         'request failed, subscriber failed unless its direction had completed, handler future / publisher cancelled), leaves every '
         'other object as it was, empties the table from every reachable state, resolves an awaitable at most once and signals a '
         'subscriber at most once; a cut at any byte offset has delivered a prefix of the frames. Tied to the code by replaying '
         'recorded histories of a real endpoint ended by EOF / transport error / close() / a cut inside a fragmented length-prefixed '
         'frame (also racing a local cancel) through the model in Coq, plus the oracle computed from the real stream table at the '
         'moment of the loss and the runtime part the model cannot exhibit: on_close exactly once, tasks gone, no request left '
         'hanging, nothing sent during four keep-alive periods of virtual time afterwards. Partial: task cancellation and the '
         'transport are runtime behaviour observed, not proved.',
    design_ref='DESIGN.md section 6, C11',
    technique='Coq proof (close-sweep theorems on the endpoint model) + in-Coq trace correspondence with a real endpoint at random loss points; runtime clauses (on_close once, tasks stopped, no sends) by observation on the virtual-time loop')

CHECKS['C08'] = dict(
    text='Theorems (props/C08.v): SETUP is the first frame and written once for every schedule; ids opened are non-zero, of the '
         'endpoint\'s parity and free, over every history; stream/channel requests carry the object\'s (positive) initial request-n, a '
         'non-positive one is rejected and sends nothing; in reaction to ANY received frame the endpoint queues only an ERROR on that '
         'frame\'s stream, the KEEPALIVE answer on stream 0 or the empty COMPLETE of a publisher-less responder; local actions queue '
         'on their own stream only; a request-response requester never answers a frame; nothing is sent for a stream that is gone; the '
         'close sweep sends nothing. REFUTED for abnormal channel endings (PAYLOAD after own CANCEL: KF-C08-channel-after-terminal). Tied to '
         'the code by comparing every frame a real endpoint queues with the model section by section on recorded legal histories, plus '
         'the per-stream protocol acceptor over emissions and prior receptions, client connects with requests issued while connecting, '
         'and lease scenarios (KF-C08-lease-overtake). The per-role frame-type table is also a theorem (C08_local_action_types) for local actions; ordering clauses '
         '(nothing after the own terminal frame) are theorems per ending plus the acceptor as oracle.',
    design_ref='DESIGN.md section 6, C08',
    technique='Coq proof (emission theorems on the endpoint model, SETUP-first and id theorems) + in-Coq trace correspondence of emitted frames with a real endpoint; per-stream acceptor as oracle')

CHECKS['C01'] = dict(
    text='Theorem (props/C01.v): for EVERY history of send_frame calls and sender steps that drains the queue, every fragment size >= 64 or '
         'none, and EVERY chunking of the resulting byte stream, the complete frames the receiving pipeline (parser, reassembly cache) hands '
         'to dispatch are, stream by stream, exactly the frames queued on that stream, in order, with type, stream, request-n, flags, '
         'metadata and data intact - none lost, duplicated, merged across streams or moved to another stream; composed from the layer '
         'theorems of C02-C05. Tied to the code by two REAL endpoints (client + server) joined by a harness-controlled link: random '
         'concurrent mixes of the five interaction models from either side, payloads 0..420 bytes, fragment sizes none/64/100, '
         'byte-stream framing re-chunked at random and message framing, late futures, paced publishers; per direction Coq checks '
         'dispatched = receive(chunks read) and, per stream, = expected_rx(frames the real sender queued); plus the delivery oracle on '
         'the recording applications (exactly once, byte for byte, in order, right interaction, right caller). '
         'C01_end_to_end_with_priority: the same for histories with send_priority_frame calls (SETUP queued while requests are '
         'already waiting, on connect and every reconnect), for every stream no priority frame is on. Above the pipeline, '
         'model/Network.v joins two endpoint models by links with exactly that guarantee (per stream first in first out, streams may '
         'overtake each other) and C01_network_delivery proves for EVERY history of the two endpoints, each side and stream: the payloads '
         'the application is given (handler arguments, subscriber elements, awaitable results) are an in-order, repetition-free selection '
         'of the payloads of the frames the peer queued on that stream - nothing fabricated, duplicated, reordered, altered or taken from '
         'another stream; a section queues at most one payload frame, carrying exactly the payload handed over in it; nothing is lost at '
         'dispatch while the local party is still listening. Network.v is tied to the code by two RECORDED real endpoints with the '
         'harness playing the link, the recorded history replayed through net_run inside Coq (effects of every event, every delivered '
         'frame, final link contents). C01_network_exactly_once closes the loop over whole histories: if a side was listening on a '
         'stream throughout (every request found its id free, every element or response found its subscriber or awaitable still '
         'expecting one) and nothing of the stream is still under way, the payloads with content it was given are EXACTLY those the '
         'peer queued on that stream, in order. Not covered by a theorem: an empty payload is no element on the wire (the code sets NEXT '
         'only when there is content), so empty elements are outside the exactly-once statement.',
    design_ref='DESIGN.md section 6, C01',
    technique='Coq proof (end-to-end pipeline theorem composed from the codec, fragmenter, send-queue, parser and cache theorems; application-to-application theorems over a two-endpoint network model) + in-Coq correspondence with two real endpoints over a simulated link and with two recorded real endpoints linked by the harness')

CHECKS['C20'] = dict(
    text='Theorems (props/C20.v): Publisher->Observable (client results, channel handler side): for every history the observer sees '
         'exactly the elements, completion and error delivered, in order; every amount requested after the stream request is exactly '
         'the limit and only for elements received, so at most <limit> are ever outstanding; Observable->Publisher (handler results): '
         'never more than the credit, a prefix in order, exactly the credited prefix at quiescence, nothing after dispose (the C06 '
         'theorems); both handler adapters hand every RequestHandler method to the delegate method of the same name (tables regenerated '
         'from both sources). Tied to the code by two real endpoints over the harness link, the client driven through RxRSocket / '
         'ReactiveXClient and the server through the handler adapters, for both Rx versions: element counts 0..30, limits 1..2^31-1, '
         'error positions, disposal moments, back-pressure factories, channels both ways, request-response, fire-and-forget, '
         'metadata-push, setup; what each adapter subscriber is given / forwards / requests is replayed through model/RxAdapter.v in Coq; '
         'oracle: observer = core-API expectation, REQUEST_N values, wire elements <= credit received, factory asked for the credited '
         'amounts, dispose -> one CANCEL and silence, delegate reached. Partial: Rx operator internals are assumed.',
    design_ref='DESIGN.md section 6, C20',
    technique='Coq proof (adapter subscriber transparency and credit bound over all histories; delegation tables by computation over regenerated constants) + in-Coq correspondence with real endpoints driven through both Rx adapter stacks')

NOT_YET = {}

# what the four rounds of seeded changes added to every check (DESIGN.md 9.4)
ORACLES_NOTE = (' Beside the theorems and the in-Coq correspondence the check runs, on the real library, the oracles that concern this '
                'property from a shared set (harness/battery.py and the property module): reconnects with a stale partial frame / with '
                'producers or lease-held requests in flight, requests issued around the loss of the connection, close by the creating '
                'coroutine, wrappers (AwaitableRSocket, the Rx adapters, the GraphQL and load-balancer wrappers, the aiohttp websocket '
                'transports), a whole endpoint on the real TCP transport read in every way, frame logging at DEBUG for a slice of the '
                'histories; their situations are counted in the evidence file. These are tests of the implementation (they find the '
                'failing input when something breaks), not part of the proof.')

def main():
    props = [json.loads(l) for l in open('/verif/properties.jsonl')]
    checks = []
    na = []
    for p in props:
        pid = p['id']
        if pid in CHECKS:
            c = CHECKS[pid]
            checks.append({
                'property_id': pid,
                'quick_cmd': './check %s --tier quick' % pid,
                'thorough_cmd': './check %s --tier thorough' % pid,
                'evidence_file': '/verif/evidence/%s.json' % pid,
                'replay_cmd_template': './check %s --replay {path}' % pid,
                'engine': 'coq',
                'level_claimed': {'category': c.get('category', 'proof'), 'text': c['text'] + ORACLES_NOTE, 'design_ref': c['design_ref']},
                'level_note': c.get('note', TB),
                'technique': c['technique'],
            })
        else:
            na.append({'property_id': pid, 'reason': NOT_YET.get(pid, 'check not built yet in this session (planned: Coq model + theorems + correspondence, see DESIGN.md section 6); not claimed until it exists')})
    m = {
        'version': 1,
        'setup_cmd': './setup.sh',
        'hooks': {'guard': 'RSOCKET_PY_VERIF', 'enable': 'no source hooks exist: the harness observes the library from outside (wrappers installed by the harness process); the guard variable is reserved and unused',
                  'baseline_off_cmd': 'cd /repo && /venv/bin/python -m pytest -ra -q -p no:cacheprovider --timeout=900 --continue-on-collection-errors',
                  'source_commits': [], 'add_only': True},
        'engines': [{'name': 'coq', 'path': '/verif/coq', 'serves_properties': sorted(CHECKS),
                     'kind_free_text': 'Coq 8.16.1 development: executable Gallina models, theorems, regenerated constants, in-Coq correspondence'}],
        'checks': checks,
        'notes': 'Single entry point ./check <id>. See DESIGN.md. Known findings in KNOWN_FINDINGS.txt.',
        'not_applicable': na,
    }
    json.dump(m, open('/verif/MANIFEST.json', 'w'), indent=1)

main()
